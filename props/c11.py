"""C11 — resampling and axis reduction conserve integrals (E-lattice, exhaustive).

Every operation under test is linear in the image data, so each configuration is run on
the *complete impulse basis* of the image (one impulse per voxel; for vector / series
payloads channel c carries its impulse, of amplitude 2**c, at voxel k+c so that every
channel still sees every voxel) plus linear combinations (1,1) and (2,-3) of impulse
pairs.  The reference model is plain NumPy arithmetic written here:

    integral(a, dims)   = sum over the spatial axes (float64) * prod(dims[i] / shape[i])
    axis sum / average  = explicit accumulation of the slices along the axis ( / extent)
    superposition       = explicit placement of every array on a zero canvas that spans
                          the bounding box of the images

and the observation point named by the property, ``Geometry(**img.shape_metadata())
.integrate(img)`` before and after, is evaluated as well.  Voxel sizes, origins and data
are dyadic, so all comparisons are exact (==) except where a division by a non-dyadic
count is part of the operation itself (documented per clause below):

* conservative Resize: OpenCV's INTER_AREA uses float32 weights even for float64 data
  (observed error <= 1.2e-7 relative); tolerance 1e-5 * sum|data| -- any real defect
  moves at least a 1/(9*9*3*3) fraction of an impulse;
* coarsening / averaging / extrusion with odd counts: a few ulp of the data type.

Oracle for the conservative Resize is the *array sum per channel* ("Conserve the
(weighted) sum", relied upon by tests/unit/test_emd.py::test_emd_2d_resize), the
property's "documented counterpart", not sum x voxel volume.
"""

from __future__ import annotations

import itertools

import numpy as np

ID = "C11"
LEVEL = "exploration"
EXHAUSTIVE = True
RULE = (
    "resize: every 2-D shape (h,w) with extents 1..N x dtype {f32,f64} x payload {scalar, vector(3), series(2)} x every target with both "
    "extents <= source plus the integer multiples {1,2,3}^2, on the complete impulse basis + pair combinations (1,1),(2,-3); target given as "
    "shape (all data) and as reference image / fx,fy factors / keyword options (generic data). refine: same images x levels -3..3 "
    "(integral, extent, coarsen(refine)=id). extrude: same images x num {1,2,3} x height {0.5,2}. reduce: every 2-D (extents 1..N) and 3-D "
    "(extents 1..M) shape x origin {default,user} x dtype x payload x every axis by matrix index and by Cartesian name x {sum, average}. "
    "superpose: shared grid: every shape 1..S^2 x dtype x {scalar, series} x k=1..4 images x origin {default,user} x every cyclic impulse "
    "placement; offsets: k=1..4 images, every tuple of shapes from {(1,1),(2,3),(3,2)} x every tuple of voxel-aligned offsets from O_k^2 for "
    "images 2..k x dtype. emd-resize: shapes 1..E^2 x dtype x {scalar, series} x every resize target, EMD with the conservative Resize as "
    "preprocessing. Non-trivial = the operation changes the grid or combines more than one image (identity targets, level 0 and k=1 are "
    "trivial); distinct = distinct (kind, shape, dtype, payload, configuration)."
)
ASSUMPTIONS = [
    "all operations are linear in the data, so the impulse basis plus pair combinations decides them for every input of that shape",
    "conservative Resize is judged on the per-channel array sum (its documented conserved quantity), tolerance 1e-5 relative (OpenCV float32 weights)",
    "dyadic voxel sizes / origins / data: every other comparison exact or within 16 ulp of the data type",
    "superposition of vector-valued images is refused by DarSIA (NotImplementedError) and counted as a refusal",
]

N2 = {"quick": 6, "thorough": 9}  # 2-D extents
N3 = {"quick": 3, "thorough": 4}  # 3-D extents (axis reduction)
NS = {"quick": 4, "thorough": 5}  # shared-grid superposition extents
NE = {"quick": 3, "thorough": 4}  # EMD with conservative resize as preprocessing
# voxel offsets per axis of images 2..k relative to image 1, per number of images k
OFFS = {
    "quick": {1: [0], 2: [-2, 0, 1], 3: [-2, 0, 1], 4: [-2, 1]},
    "thorough": {1: [0], 2: [-2, 0, 1, 3], 3: [-2, 0, 1, 3], 4: [-2, 0, 1, 3]},
}
SUP_SHAPES = [(1, 1), (2, 3), (3, 2)]
PAYLOAD = {"scalar": (), "vector": (3,), "series": (2,)}
DTYPES = ["float32", "float64"]
VS = [0.5, 2.0, 0.25]  # voxel sizes per matrix axis
USER_ORIGIN = {1: [3.0], 2: [3.0, -2.0], 3: [3.0, -2.0, 5.0]}
LEVELS = [-3, -2, -1, 0, 1, 2, 3]
# Cartesian name -> matrix axis (convention of the coordinate system; C20 checks it)
NAME2IDX = {2: {"x": 1, "y": 0}, 3: {"x": 1, "y": 2, "z": 0}}


def describe(tier):
    return {
        "extents_2d": [1, N2[tier]],
        "extents_3d": [1, N3[tier]],
        "dtypes": DTYPES,
        "payloads": {k: list(v) for k, v in PAYLOAD.items()},
        "levels": LEVELS,
        "extrusion": {"num": [1, 2, 3], "height": [0.5, 2.0]},
        "superpose_shared_extents": [1, NS[tier]],
        "superpose_offset_shapes": SUP_SHAPES,
        "superpose_offsets_per_axis_by_k": OFFS[tier],
        "emd_extents": [1, NE[tier]],
        "superpose_images": [1, 4],
    }


def cases(tier):
    out = []
    n2, n3 = N2[tier], N3[tier]
    shapes2 = sorted(itertools.product(range(1, n2 + 1), repeat=2), key=lambda s: (s[0] * s[1], s))
    shapes3 = sorted(itertools.product(range(1, n3 + 1), repeat=3), key=lambda s: (s[0] * s[1] * s[2], s))
    for s in shapes2:
        for dt in DTYPES:
            for pl in PAYLOAD:
                for kind in ("resize", "refine", "extrude"):
                    out.append({"kind": kind, "shape": list(s), "dtype": dt, "payload": pl})
    for shapes in (shapes2, shapes3):
        for s in shapes:
            for dt in DTYPES:
                for pl in PAYLOAD:
                    for origin in ("default", "user"):
                        out.append({"kind": "reduce", "shape": list(s), "dtype": dt, "payload": pl, "origin": origin})
    ns = NS[tier]
    for s in sorted(itertools.product(range(1, ns + 1), repeat=2), key=lambda s: (s[0] * s[1], s)):
        for dt in DTYPES:
            for pl in ("scalar", "series"):
                for k in (1, 2, 3, 4):
                    out.append({"kind": "superpose-shared", "shape": list(s), "dtype": dt, "payload": pl, "k": k})
    ne = NE[tier]
    for s in sorted(itertools.product(range(1, ne + 1), repeat=2), key=lambda s: (s[0] * s[1], s)):
        for dt in DTYPES:
            for pl in ("scalar", "series"):
                out.append({"kind": "emd-resize", "shape": list(s), "dtype": dt, "payload": pl})
    out.append({"kind": "superpose-refusal", "shape": [2, 3], "dtype": "float64", "payload": "vector", "k": 2})
    # one Resize object applied to a sequence of images of different shapes (call histories)
    for tgt in ([2, 3], [4, 6]):
        for conservative in (True, False):
            out.append({"kind": "resize-history", "target": tgt, "conservative": conservative, "shape": [2, 2]})
    for k in (1, 2, 3, 4):
        for shp in itertools.product(range(len(SUP_SHAPES)), repeat=k):
            for dt in DTYPES:
                out.append({"kind": "superpose-offset", "shapes": [list(SUP_SHAPES[i]) for i in shp], "dtype": dt, "k": k, "offs": OFFS[tier][k]})
    rank = {"resize": 0, "refine": 1, "extrude": 2, "reduce": 3, "superpose-shared": 4, "superpose-refusal": 5, "superpose-offset": 6, "emd-resize": 7, "resize-history": 8}
    out.sort(key=lambda c: (int(np.prod(c.get("shape", [9, 9, c.get("k", 0)]))), rank[c["kind"]]))  # stable: simplest first
    return out


# ------------------------------------------------------------------------- reference
class _Conv(np.ndarray):
    """Marks data that reaches the image by conversion AFTER construction: the image is built
    around integer-typed (uint8) data and its array is then replaced by this float array, as
    ``img.img = img.img / 255`` or ``astype(float)`` + rescaling do.  The image's current
    values and dtype are what every operation has to work on."""


def _converted(spatial, payload, dtype):
    if np.dtype(dtype) != np.float64:
        return []
    return [(_generic(spatial, payload, dtype) / 4.0 + 0.375).view(_Conv)]


def _make(arr, payload, space_dim=2, origin=None, cls=None):
    """A darsia image with dyadic voxel sizes VS around ``arr`` (fresh metadata lists)."""
    import darsia

    if isinstance(arr, _Conv):
        values = np.array(arr, dtype=np.float64, subok=False)
        img = _make(np.zeros(values.shape, dtype=np.uint8), payload, space_dim, origin, cls)
        img.img = values
        return img

    shape = arr.shape[:space_dim]
    kw = dict(
        space_dim=space_dim,
        dimensions=[VS[a] * shape[a] for a in range(space_dim)],
        scalar=payload in ("scalar", "series"),
        series=payload == "series",
    )
    if payload == "series":
        kw["time"] = [float(t) for t in range(arr.shape[space_dim])]
    if origin is not None:
        kw["origin"] = list(origin)
    return (cls or darsia.Image)(arr, **kw)


def _call_keep(chk, opname, fn, *imgs):
    """Run the operation; its input images (data, placement, every metadata container) must be
    left as they were -- 'the image it came from' is still the same image after the call."""
    from mc.canon import digest

    pre = [digest(i) for i in imgs]
    out = fn()
    for k, (i, p0) in enumerate(zip(imgs, pre)):
        chk(digest(i) == p0, f"C11/{opname}/input-unchanged", "the operation leaves the image it was given unchanged (data and placement), so result and source can still be compared after the call", input_index=k, shape=list(i.img.shape), dtype=str(i.img.dtype))
    return out


def _basis(spatial, payload, dtype):
    """Impulse basis (+ pair combinations) for arrays of shape spatial + payload."""
    n = int(np.prod(spatial))
    chan = PAYLOAD[payload]
    nc = int(np.prod(chan)) if chan else 1
    imp = []
    for k in range(n):
        a = np.zeros((n, nc), dtype=dtype)
        for c in range(nc):
            a[(k + c) % n, c] = 2.0**c
        imp.append(a.reshape(tuple(spatial) + chan))
    out = list(imp)
    if n >= 2:
        pairs = list(itertools.combinations(range(n), 2)) if n <= 6 else [(k, (k + 1) % n) for k in range(n)]
        for i, j in pairs:
            out.append((imp[i] + imp[j]).astype(dtype))
            out.append((2.0 * imp[i] - 3.0 * imp[j]).astype(dtype))
    return out


def _generic(spatial, payload, dtype):
    chan = PAYLOAD[payload]
    n = int(np.prod(tuple(spatial) + chan))
    return np.arange(1, n + 1, dtype=dtype).reshape(tuple(spatial) + chan)


def _ssum(arr, space_dim):
    """Sum over the spatial axes, float64, explicit accumulation."""
    a = np.asarray(arr, dtype=np.float64)
    for _ in range(space_dim):
        acc = np.zeros(a.shape[1:], dtype=np.float64)
        for i in range(a.shape[0]):
            acc = acc + a[i]
        a = acc
    return a


def _integral(arr, dims, space_dim):
    vol = 1.0
    for i in range(space_dim):
        vol *= float(dims[i]) / arr.shape[i]
    return _ssum(arr, space_dim) * vol


def _geo(img):
    import darsia

    return np.asarray(darsia.Geometry(**img.shape_metadata()).integrate(img), dtype=np.float64)


def _dims(img):
    return [float(x) for x in img.dimensions]


def _close(a, b, scale, dtype, ulps=16):
    eps = float(np.finfo(dtype).eps)
    a, b = np.asarray(a, dtype=np.float64), np.asarray(b, dtype=np.float64)
    return a.shape == b.shape and bool(np.all(np.abs(a - b) <= ulps * eps * np.asarray(scale, dtype=np.float64)))


class _Once:
    """Report a failing (cell, clause) once per case with the first failing input, but
    count every evaluation."""

    def __init__(self, r):
        self.r = r
        self.seen = set()

    def __call__(self, cond, cell, clause, **detail):
        if cond:
            self.r.ok()
            return True
        if (cell, clause) in self.seen:
            self.r.ok()  # evaluated; the cell is already reported for this case
            return False
        self.seen.add((cell, clause))
        self.r.fail(cell, clause, **detail)
        return False


# ------------------------------------------------------------------------- run_case
def run_case(case, r):
    kind = case["kind"]
    if kind == "resize":
        _run_resize(case, r)
    elif kind == "refine":
        _run_refine(case, r)
    elif kind == "extrude":
        _run_extrude(case, r)
    elif kind == "reduce":
        _run_reduce(case, r)
    elif kind == "superpose-shared":
        _run_superpose_shared(case, r)
    elif kind == "superpose-refusal":
        _run_superpose_refusal(case, r)
    elif kind == "superpose-offset":
        _run_superpose_offset(case, r)
    elif kind == "emd-resize":
        _run_emd(case, r)
    elif kind == "resize-history":
        _run_resize_history(case, r)
    else:  # pragma: no cover
        raise AssertionError(kind)


# ---- one Resize object, several calls: the result must not depend on earlier calls
def _run_resize_history(case, r):
    import itertools

    import darsia

    tgt, cons = tuple(case["target"]), case["conservative"]
    shapes = [(4, 6), (8, 6), (4, 12), (2, 3), (8, 12)]
    shapes = [s for s in shapes if (s[0] % tgt[0] == 0 and s[1] % tgt[1] == 0) or (tgt[0] % s[0] == 0 and tgt[1] % s[1] == 0)]

    def image(shape, k):
        n = shape[0] * shape[1]
        arr = (1.0 + (np.arange(n) * (3 + k)) % 7).reshape(shape)
        return darsia.Image(arr, dimensions=[1.0, 2.0], scalar=True, space_dim=2)

    def make():
        return darsia.Resize(shape=tgt, interpolation="inter_area", **{"resize conservative": cons})

    fresh = {s: make()(image(s, 0)) for s in shapes}
    cell = f"C11/resize/history/conservative={cons}"
    n = 0
    for seq in itertools.chain(itertools.permutations(shapes, 2), itertools.permutations(shapes, 3)):
        obj = make()
        for s in seq:
            out = obj(image(s, 0))
            n += 1
            ok = out.img.shape == fresh[s].img.shape and np.array_equal(out.img, fresh[s].img) and [float(x) for x in out.dimensions] == [float(x) for x in fresh[s].dimensions]
            if not ok:
                r.fail(cell, "a Resize object gives the same result for an image whatever it resized before (sum conserved for every image)", sequence=[list(x) for x in seq], at=list(s), got_sum=float(out.img.sum()), fresh_sum=float(fresh[s].img.sum()))
                return
    r.ok(n)
    if cons:
        for s in shapes:
            r.check(abs(float(fresh[s].img.sum()) - float(image(s, 0).img.sum())) <= 1e-5 * float(image(s, 0).img.sum()), "C11/resize/history/fresh-sum", "conservative resize preserves the array sum", shape=list(s))
    r.nontriv(case)
    r.outcome((case, [float(fresh[s].img.sum()) for s in shapes]))


# ---- conservative resize
def _direction(src, tgt):
    if tuple(src) == tuple(tgt):
        return "identity"
    if tgt[0] <= src[0] and tgt[1] <= src[1]:
        return "down-integer" if (src[0] % tgt[0] == 0 and src[1] % tgt[1] == 0) else "down-fractional"
    return "up-integer"


def _targets(shape):
    h, w = shape
    t = [(a, b) for a in range(1, h + 1) for b in range(1, w + 1)]
    for fa in (1, 2, 3):
        for fb in (1, 2, 3):
            if (h * fa, w * fb) not in t:
                t.append((h * fa, w * fb))
    return t


def _run_resize(case, r):
    import darsia

    shape, dt, pl = tuple(case["shape"]), np.dtype(case["dtype"]), case["payload"]
    chk = _Once(r)
    basis = _basis(shape, pl, dt)
    gen = _generic(shape, pl, dt)
    opts = {"resize conservative": True}
    worst = 0.0
    for tgt in _targets(shape):
        d = _direction(shape, tgt)
        if d != "identity":
            r.nontriv(("resize", shape, str(dt), pl, tgt))

        def judge(out, arr, way):
            nonlocal worst
            c_shape = f"C11/resize/shape/{d}"
            c_ext = f"C11/resize/extent/{d}"
            c_sum = f"C11/resize/sum/{d}/{pl}/{dt}"
            ok = chk(tuple(out.img.shape) == tuple(tgt) + PAYLOAD[pl], c_shape, "the resized array has the requested spatial shape and the payload axes of the input", way=way, target=tgt, got=list(out.img.shape))
            chk(_dims(out) == [VS[0] * shape[0], VS[1] * shape[1]], c_ext, "dimensions (physical extent) are kept", way=way, target=tgt, got=_dims(out))
            chk(out.img.dtype == dt, c_shape, "the data type is kept", way=way, target=tgt, got=str(out.img.dtype))
            if ok:
                want, got = _ssum(arr, 2), _ssum(out.img, 2)
                scale = _ssum(np.abs(arr), 2)
                err = float(np.max(np.abs(want - got) / np.maximum(scale, 1e-300))) if want.size else 0.0
                worst = max(worst, err)
                chk(bool(np.all(np.abs(want - got) <= 1e-5 * scale)), c_sum, "conservative resize preserves the array sum of every channel", way=way, target=tgt, data=arr, got=got, want=want)
            return ok

        rs = darsia.Resize(shape=tgt, interpolation="inter_area", **opts)
        # data whose total vanishes (an all-zero image; signed data minus its point reflection): the sum
        # to be conserved is zero, per channel
        zero_sum = []
        if np.dtype(dt).kind == "f":
            zero_sum = [np.zeros_like(gen), (gen - gen[::-1, ::-1]).astype(dt)]
        for arr in basis + [gen] + zero_sum:
            src_ = _make(arr.copy(), pl)
            out = _call_keep(chk, "resize", lambda: rs(src_), src_)
            judge(out, arr, "shape")
        r.outcome(("resize", shape, str(dt), pl, tgt, np.round(np.asarray(out.img, dtype=np.float64), 4).tolist()))
        # other ways to state the same target (generic data)
        ref = _make(np.zeros(tgt, dtype=dt), "scalar")
        ways = {
            "ref_image": lambda: darsia.Resize(ref_image=ref, interpolation="inter_area", **opts),
            "keywords": lambda: darsia.Resize(key="k ", **{"k resize shape": tgt, "k resize interpolation": "inter_area", "k resize conservative": True}),
            "factors": lambda: darsia.Resize(fx=tgt[1] / shape[1], fy=tgt[0] / shape[0], interpolation="inter_area", **opts),
        }
        for way, mk in ways.items():
            out = mk()(_make(gen.copy(), pl))
            judge(out, gen, way)
        # plain array input ("same format as input")
        out_arr = rs(gen.copy())
        if chk(isinstance(out_arr, np.ndarray) and out_arr.shape == tuple(tgt) + PAYLOAD[pl], f"C11/resize/shape/{d}", "an array input is resized to the requested shape as an array", way="ndarray", target=tgt):
            chk(bool(np.all(np.abs(_ssum(out_arr, 2) - _ssum(gen, 2)) <= 1e-5 * _ssum(np.abs(gen), 2))), f"C11/resize/sum/{d}/{pl}/{dt}", "conservative resize preserves the array sum of every channel", way="ndarray", target=tgt, got=_ssum(out_arr, 2), want=_ssum(gen, 2))
    # how far the observed sums are from exact (tolerance 1e-5): exposes a tolerance that starts to be needed
    r.count("resize_cases_relerr_le_1e-6" if worst <= 1e-6 else "resize_cases_relerr_gt_1e-6")


# ---- EMD with the conservative resize as preprocessing (measure/emd.py relies on the conserved sum)
def _run_emd(case, r):
    import darsia

    shape, dt, pl = tuple(case["shape"]), np.dtype(case["dtype"]), case["payload"]
    chk = _Once(r)
    n = shape[0] * shape[1]
    imp = _basis(shape, pl, dt)[:n]
    for tgt in _targets(shape):
        d = _direction(shape, tgt)
        if d != "identity":
            r.nontriv(("emd-resize", shape, str(dt), pl, tgt))
        emd = darsia.EMD(darsia.Resize(shape=tgt, interpolation="inter_area", **{"resize conservative": True}))
        cell = f"C11/emd-resize/{d}/{pl}"
        dist = None
        for i in range(n):
            img_i = _make(imp[i].copy(), pl)
            pre = emd._preprocess(img_i)
            got, want = np.asarray(emd._sum(pre), dtype=np.float64), _ssum(imp[i], 2)
            chk(got.shape == want.shape and bool(np.all(np.abs(got - want) <= 1e-5 * np.abs(want))), cell + "/sum", "the sum over the spatial entries seen by EMD after conservative preprocessing is the plain array sum of the input (per time slab)", target=tgt, data=imp[i], got=got, want=want)
            j = (i + 1) % n
            try:
                dist = emd(img_i, _make(imp[j].copy(), pl))
                chk(bool(np.all(np.isfinite(dist)) and np.all(np.asarray(dist) >= 0)), cell + "/compatible", "two images of equal mass stay comparable after conservative preprocessing", target=tgt, got=dist)
            except AssertionError as e:
                chk(False, cell + "/compatible", "two images of equal mass stay comparable after conservative preprocessing", target=tgt, i=i, j=j, exception=repr(e))
        r.outcome(("emd", shape, str(dt), pl, tgt, np.round(np.asarray(dist, dtype=np.float64), 5).tolist()))


# ---- uniform refinement / coarsening
def _coarsen_class(shape, nlev):
    cur = list(shape)
    first = any(n % 2 for n in cur)
    deeper = False
    for lev in range(nlev):
        if lev > 0 and any(n % 2 for n in cur):
            deeper = True
        cur = [(n + 1) // 2 for n in cur]
    if deeper:
        return "odd-extent/deeper-level"
    if first:
        return "odd-extent/first-level"
    return "even-throughout"


def _run_refine(case, r):
    import darsia

    shape, dt, pl = tuple(case["shape"]), np.dtype(case["dtype"]), case["payload"]
    chk = _Once(r)
    dims = [VS[0] * shape[0], VS[1] * shape[1]]
    data = _basis(shape, pl, dt) + [_generic(shape, pl, dt)] + _converted(shape, pl, dt)
    # very large finite values (no-data markers, float32 physical data): every block mean is
    # representable, so coarsening a constant image returns the constant and refine-then-coarsen
    # is still the identity
    if np.dtype(dt).kind == "f":
        big = 0.75 * float(np.finfo(dt).max)
        for sign in (1.0, -1.0):
            hug = np.full(tuple(shape) + PAYLOAD[pl], sign * big, dtype=dt)
            val_h = float(hug.flat[0])  # the value as stored in this dtype
            for lev_ in (-1, -2, 1):
                try:
                    with np.errstate(all="ignore"):
                        out_h = darsia.uniform_refinement(_make(hug.copy(), pl), lev_)
                        if lev_ > 0:
                            out_h = darsia.uniform_refinement(out_h, -lev_)
                    got_h = np.asarray(out_h.img, dtype=np.float64)
                    okh = bool(np.all(np.isfinite(got_h))) and (bool(np.all(got_h == val_h)) if lev_ > 0 else bool(np.allclose(got_h, val_h, rtol=1e-6)))
                    chk(okh, "C11/uniform_refinement/huge-values", "coarsening (and refine-then-coarsen) of a constant image of very large finite values stays finite and returns the constant", level=lev_, dtype=str(dt), value=val_h, got_sample=got_h.ravel()[:3])
                except Exception as e:  # noqa: BLE001
                    chk(False, "C11/uniform_refinement/huge-values", "coarsening is usable on very large finite values", level=lev_, exception=f"{type(e).__name__}: {e}")
    for lev in LEVELS:
        if lev != 0:
            r.nontriv(("refine", shape, str(dt), pl, lev))
        if lev > 0:
            base = "C11/uniform_refinement/refine"
        elif lev == 0:
            base = "C11/uniform_refinement/level-0"
        else:
            base = f"C11/uniform_refinement/coarsen/{_coarsen_class(shape, -lev)}"
        last = None
        for arr in data:
            img = _make(arr.copy(), pl)
            before_geo, before_ref = _geo(img), _integral(arr, dims, 2)
            try:
                out = _call_keep(chk, "uniform_refinement", lambda: darsia.uniform_refinement(img, lev), img)
            except Exception as e:  # no refusal is documented for any level / shape
                chk(False, base + "/usable", "uniform_refinement is usable for every shape and level of the quantifier", level=lev, exception=f"{type(e).__name__}: {e}")
                last = "raised"
                break
            scale = _integral(np.abs(arr), dims, 2)
            chk(_dims(out) == dims, base + "/extent", "dimensions (physical extent) are kept", level=lev, got=_dims(out), want=dims)
            after_geo = _geo(out)
            after_ref = _integral(out.img, _dims(out), 2)
            if lev >= 0:
                ok = np.array_equal(after_geo, before_geo) and np.array_equal(after_ref, before_ref)
            else:
                ok = _close(after_geo, before_geo, scale, dt) and _close(after_ref, before_ref, scale, dt)
            chk(ok, base + "/integral", "the physical integral (Geometry.integrate, and sum x voxel volume) is preserved", level=lev, data=arr, before=before_ref, after=after_ref, after_geometry=after_geo, out_shape=list(out.img.shape))
            if lev > 0:
                want_shape = tuple(n * 2**lev for n in shape) + PAYLOAD[pl]
                chk(tuple(out.img.shape) == want_shape, base + "/shape", "refinement by L levels multiplies every spatial extent by 2**L", level=lev, got=list(out.img.shape))
                try:
                    back = darsia.uniform_refinement(out, -lev)
                    same = back.img.shape == arr.shape and np.array_equal(back.img, arr) and _dims(back) == dims
                    chk(same, "C11/uniform_refinement/refine-then-coarsen", "refinement followed by coarsening by the same number of levels is the identity", level=lev, data=arr, got=back.img)
                except Exception as e:
                    chk(False, "C11/uniform_refinement/refine-then-coarsen", "refinement followed by coarsening by the same number of levels is the identity", level=lev, exception=f"{type(e).__name__}: {e}")
            elif lev == 0:
                chk(np.array_equal(out.img, arr), base + "/data", "level 0 leaves the data unchanged")
            last = np.round(np.asarray(out.img, dtype=np.float64), 6).tolist() if out.img.size <= 400 else list(out.img.shape)
        r.outcome(("refine", shape, str(dt), pl, lev, last))


# ---- extrusion
def _run_extrude(case, r):
    import darsia

    shape, dt, pl = tuple(case["shape"]), np.dtype(case["dtype"]), case["payload"]
    chk = _Once(r)
    dims = [VS[0] * shape[0], VS[1] * shape[1]]
    data = _basis(shape, pl, dt) + [_generic(shape, pl, dt)] + _converted(shape, pl, dt)
    for num in (1, 2, 3):
        for height in (0.5, 2.0):
            r.nontriv(("extrude", shape, str(dt), pl, num, height))
            for arr in data:
                img = _make(arr.copy(), pl, origin=USER_ORIGIN[2])
                i2_geo, i2_ref = _geo(img), _integral(arr, dims, 2)
                out = _call_keep(chk, "extrude", lambda: darsia.extrude_along_axis(img, height, num), img)
                c = f"C11/extrude/{{}}/{pl}"
                ok = chk(out.space_dim == 3 and tuple(out.img.shape) == (num,) + arr.shape, c.format("shape"), "the extruded image is 3-D with `num` layers in front of the 2-D axes", num=num, got=list(out.img.shape))
                chk(_dims(out) == [height] + dims, c.format("extent"), "extents of the retained axes are kept, the new axis has the extrusion height", num=num, height=height, got=_dims(out))
                if ok:
                    scale = _integral(np.abs(arr), dims, 2) * height
                    i3_geo, i3_ref = _geo(out), _integral(out.img, _dims(out), 3)
                    chk(_close(i3_geo, i2_geo * height, scale, dt) and _close(i3_ref, i2_ref * height, scale, dt), c.format("integral"), "3-D integral = 2-D integral x extrusion height", num=num, height=height, data=arr, got=i3_ref, want=i2_ref * height, got_geometry=i3_geo)
            r.outcome(("extrude", shape, str(dt), pl, num, height, np.asarray(out.img, dtype=np.float64).tolist()))


# ---- axis reduction
def _run_reduce(case, r):
    import darsia

    shape, dt, pl = tuple(case["shape"]), np.dtype(case["dtype"]), case["payload"]
    dim = len(shape)
    chk = _Once(r)
    dims = [VS[a] * shape[a] for a in range(dim)]
    origin = USER_ORIGIN[dim] if case["origin"] == "user" else None
    data = _basis(shape, pl, dt) + [_generic(shape, pl, dt)] + _converted(shape, pl, dt)
    addr = [(p, "index", p) for p in range(dim)] + [(name, "name", p) for name, p in sorted(NAME2IDX[dim].items())]
    for axis, how, p in addr:
        kept = [dims[a] for a in range(dim) if a != p]
        for mode in ("sum", "average"):
            r.nontriv(("reduce", shape, str(dt), pl, case["origin"], axis, mode))
            cell = f"C11/reduce_axis/{mode}/dim={dim}/axis={'ijk'[p]}/addr={how}"
            for arr in data:
                img = _make(arr.copy(), pl, space_dim=dim, origin=origin)
                parent_geo, parent_ref = _geo(img), _integral(arr, dims, dim)
                out = _call_keep(chk, "reduce_axis", lambda: darsia.reduce_axis(img, axis, mode=mode), img)
                # reference: accumulate the slices along matrix axis p, in the data type
                acc = np.zeros(tuple(s for a, s in enumerate(arr.shape) if a != p), dtype=dt)
                for i in range(shape[p]):
                    acc = acc + np.take(arr, i, axis=p)
                want = acc if mode == "sum" else acc / shape[p]
                ok = chk(out.img.shape == want.shape and np.array_equal(out.img, want), cell + "/data", "sum = plain array sum along the axis; average = that sum / number of voxels along the axis", data=arr, got=out.img, want=want)
                chk(out.space_dim == dim - 1 and _dims(out) == kept, cell + "/extent", "the retained axes keep the parent's dimensions", got=_dims(out), want=kept)
                # ... and their position: the lower (Cartesian) corner of the reduced image is the parent's
                # lower corner with the entry of the reduced Cartesian axis removed (as documented in AxisReduction)
                if out.space_dim == dim - 1 and dim - 1 >= 1:
                    cart_removed = {2: {0: 1, 1: 0}, 3: {0: 2, 1: 0, 2: 1}}[dim][p]  # matrix axis -> Cartesian axis (i->y, j->x | i->z, j->x, k->y)
                    pmin = np.minimum(np.asarray(img.origin, dtype=float), np.asarray(img.opposite_corner, dtype=float))
                    want_min = np.delete(pmin, cart_removed)
                    got_min = np.minimum(np.asarray(out.origin, dtype=float), np.asarray(out.opposite_corner, dtype=float))
                    chk(got_min.shape == want_min.shape and np.array_equal(got_min, want_min), cell + "/position", "the reduced image keeps the lower corner of the retained Cartesian axes", got=got_min, want=want_min, parent_min=pmin)
                if ok and out.space_dim == dim - 1 and _dims(out) == kept:
                    factor = VS[p] if mode == "sum" else dims[p]
                    scale = _integral(np.abs(arr), dims, dim)
                    red_geo, red_ref = _geo(out), _integral(out.img, kept, dim - 1)
                    if mode == "sum":
                        okI = np.array_equal(red_geo * factor, parent_geo) and np.array_equal(red_ref * factor, parent_ref)
                    else:
                        okI = _close(red_geo * factor, parent_geo, scale, dt) and _close(red_ref * factor, parent_ref, scale, dt)
                    chk(okI, cell + "/integral", "integral of the sum image x voxel size of the axis (of the average image x extent of the axis) = integral of the parent", data=arr, got=red_ref * factor, want=parent_ref)
            r.outcome(("reduce", shape, str(dt), pl, str(axis), mode, np.asarray(out.img, dtype=np.float64).tolist(), _dims(out)))


# ---- superposition
def _scalar_image(arr, vs, origin, series):
    import darsia

    kw = dict(space_dim=2, dimensions=[vs[0] * arr.shape[0], vs[1] * arr.shape[1]])
    if origin is not None:
        kw["origin"] = list(origin)
    if series:
        kw["series"] = True
        kw["time"] = [float(t) for t in range(arr.shape[2])]
    return darsia.ScalarImage(arr, **kw)


def _run_superpose_shared(case, r):
    import darsia

    shape, dt, pl, k = tuple(case["shape"]), np.dtype(case["dtype"]), case["payload"], case["k"]
    chk = _Once(r)
    n = shape[0] * shape[1]
    chan = PAYLOAD[pl]
    nc = chan[0] if chan else 1
    vs = (0.5, 0.25)
    dims = [vs[0] * shape[0], vs[1] * shape[1]]
    cell = f"C11/superpose/shared-grid/k={k}/{pl}"
    if k > 1:
        r.nontriv(("superpose-shared", shape, str(dt), pl, k))
    for origin in (None, [3.0, -2.0]):
        data_sets = []
        for p in range(n):  # image i carries 2**i at voxel p+i (+c for time slab c)
            arrs = []
            for i in range(k):
                a = np.zeros((n, nc), dtype=dt)
                for c in range(nc):
                    a[(p + i + c) % n, c] = 2.0**i * (c + 1)
                arrs.append(a.reshape(shape + chan))
            data_sets.append(arrs)
        data_sets.append([(_generic(shape, pl, dt) * (i + 1) - 3 * i).astype(dt) for i in range(k)])
        for arrs in data_sets:
            imgs = [_scalar_image(a.copy(), vs, origin, pl == "series") for a in arrs]
            out = _call_keep(chk, "superpose", lambda: darsia.superpose(imgs), *imgs)
            want = np.zeros(shape + chan, dtype=np.float64)
            for a in arrs:
                want = want + a
            chk(out.img.shape == want.shape and np.array_equal(out.img, want), cell + "/data", "superposing images that share a grid equals adding their arrays", arrays=arrs, got=out.img, want=want)
            chk(_dims(out) == dims and np.array_equal(np.asarray(out.origin, dtype=float), np.asarray(imgs[0].origin, dtype=float)), cell + "/canvas", "the canvas is the common grid (same extent and origin)", got=_dims(out), origin=np.asarray(out.origin, dtype=float))
            if out.img.shape == want.shape:
                tot = sum(_geo(im) for im in imgs)
                chk(np.array_equal(_geo(out), tot) and np.array_equal(_integral(out.img, _dims(out), 2), sum(_integral(a, dims, 2) for a in arrs)), cell + "/integral", "the integral of the superposition is the sum of the integrals", got=_geo(out), want=tot)
        r.outcome(("sup-shared", shape, str(dt), pl, k, origin is None, np.asarray(out.img, dtype=np.float64).tolist()))


def _run_superpose_refusal(case, r):
    import darsia

    arrs = [np.ones((2, 3, 3)), 2 * np.ones((2, 3, 3))]
    imgs = [darsia.Image(a, space_dim=2, dimensions=[1.0, 0.75], scalar=False) for a in arrs]
    try:
        out = darsia.superpose(imgs)
    except NotImplementedError:
        r.ok()
        r.outcome("superpose-vector-refused")
        return
    # if it is accepted, it must add
    r.check(out.img.shape == (2, 3, 3) and np.array_equal(out.img, arrs[0] + arrs[1]), "C11/superpose/shared-grid/k=2/vector/data", "superposing images that share a grid equals adding their arrays", got=out.img)
    r.outcome("superpose-vector-accepted")


def _run_superpose_offset(case, r):
    import darsia

    shapes, dt, k = [tuple(s) for s in case["shapes"]], np.dtype(case["dtype"]), case["k"]
    offs = case["offs"]
    chk = _Once(r)
    vs = (0.5, 0.25)
    x0, ytop = 3.0, -2.0  # Cartesian position of the top-left corner of image 0
    arrs = []
    base = 1
    for s in shapes:
        n = s[0] * s[1]
        arrs.append(np.arange(base, base + n, dtype=dt).reshape(s))
        base += n
    offsets2 = list(itertools.product(offs, repeat=2))
    # (the first image's corner is integer-valued: it is also spelled with Python ints, which makes its
    # origin array integer-typed while later images sit at fractional offsets)
    for combo, int_first in [(c_, f_) for c_ in itertools.product(offsets2, repeat=k - 1) for f_ in ((False, True) if k == 2 else (False,))]:
        placed = [(0, 0)] + list(combo)  # (row offset, column offset) of the top-left voxel, in voxels
        if k > 1:
            r.nontriv(("superpose-offset", tuple(shapes), str(dt), combo, int_first))
        imgs = []
        for i_, (a, (ro, co)) in enumerate(zip(arrs, placed)):
            org_ = [x0 + co * vs[1], ytop - ro * vs[0]]
            if i_ == 0 and int_first:
                org_ = [int(org_[0]), int(org_[1])]
            imgs.append(_scalar_image(a.copy(), vs, org_, False))
        out = _call_keep(chk, "superpose", lambda: darsia.superpose(imgs), *imgs)
        rmin = min(ro for ro, _ in placed)
        cmin = min(co for _, co in placed)
        rmax = max(ro + s[0] for (ro, _), s in zip(placed, shapes))
        cmax = max(co + s[1] for (_, co), s in zip(placed, shapes))
        want_dims = [vs[0] * (rmax - rmin), vs[1] * (cmax - cmin)]
        want_origin = [x0 + cmin * vs[1], ytop - rmin * vs[0]]
        cls = "aligned-corner" if all(p == (0, 0) for p in placed) else "shifted"
        cell = f"C11/superpose/offset/k={k}/{cls}"
        okc = chk(
            _dims(out) == want_dims and np.asarray(out.origin, dtype=float).tolist() == want_origin and tuple(out.img.shape) == (rmax - rmin, cmax - cmin),
            cell + "/canvas",
            "the canvas is the bounding box of the images (origin, dimensions, voxel count)",
            placed=placed, shapes=shapes, got=[np.asarray(out.origin, dtype=float).tolist(), _dims(out), list(out.img.shape)], want=[want_origin, want_dims, [rmax - rmin, cmax - cmin]],
        )
        tot_geo = sum(_geo(im) for im in imgs)
        tot_ref = sum(_integral(a, [vs[0] * a.shape[0], vs[1] * a.shape[1]], 2) for a in arrs)
        chk(np.array_equal(_geo(out), tot_geo) and np.array_equal(_integral(out.img, _dims(out), 2), tot_ref), cell + "/integral", "the integral of the superposition is the sum of the integrals of the images", placed=placed, shapes=shapes, got=_geo(out), want=tot_geo, out=out.img)
        if okc:
            # reference canvas (recorded as behaviour, and compared when images do not move: same-corner case)
            want = np.zeros((rmax - rmin, cmax - cmin), dtype=np.float64)
            for a, (ro, co) in zip(arrs, placed):
                want[ro - rmin : ro - rmin + a.shape[0], co - cmin : co - cmin + a.shape[1]] += a
            r.count("superpose_offset_placement_" + ("same" if np.array_equal(out.img, want) else "differs"))
    r.outcome(("sup-offset", tuple(shapes), str(dt), np.asarray(out.img, dtype=np.float64).tolist()))
