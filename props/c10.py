"""C10 — every correction honours the copy / in-place / array / series contract (E-state).

Root = (correction configuration, input kind, dtype, shape).  State = (live correction
object, live input object); transitions = ``correction(x, overwrite=False)`` and
``correction(x, overwrite=True)``.  The search is an explicit-state BFS over the real
objects (full-content digest, de-duplicated) plus an un-deduplicated pass over all call
sequences of length <= 2 (guard against a wrong digest).

Oracle on EVERY transition (the reference is a *never used* correction of the same
configuration, applied by the check itself to a private copy of the raw array):

 (a) overwrite=False: full-content digest of the input unchanged, result is another
     object and does not share memory with the input;
 (b) same image class; pixel data == reference.correct_array(raw copy) (dtype, shape,
     values); metadata == input metadata (read attribute by attribute, not through
     Image.metadata()) updated by reference.correct_metadata();
 (c) overwrite=True: the returned object *is* the input, with data / metadata as in (b);
     for raw arrays the returned array equals (b);
 (d) series: the reference is built slice by slice (np.stack of per-slice applications);
     additionally correction(image.time_slice(t)) == result.time_slice(t);
 (e) neutral parameters: pixel values unchanged;
 (f) Image(arr, transformations=[c1, c2]) == c2(c1(Image(arr))).

Independent boring models (only where the meaning of the correction is unambiguous):
integer translation = explicit index shift with zero fill, illumination = product with
the local scaling, affine voxel shift = index shift, crop / generalised perspective =
declared dimensions and origin.
"""

from __future__ import annotations

import collections
import copy
import datetime
import itertools
import os

import numpy as np

from mc import env
from mc.canon import digest

ID = "C10"
LEVEL = "model_checking"
EXHAUSTIVE = True
RULE = (
    "roots: every correction configuration of the table CONFIGS (TypeCorrection x 7 types; RotationCorrection 2-D {0, pi/2, 0.25} and 3-D "
    "{zero, quarter about x, two rotations}; TranslationCorrection {inactive, zero, integer shift, half-pixel shift}; CurvatureCorrection "
    "{empty, zero bulge+stretch, bulge, stretch, crop, init+crop+bulge+stretch, bulge with file cache}; DriftCorrection {inactive, inactive "
    "without base, active, active with ROI}; ColorCorrection {inactive, darsia, colour, custom reference+linear+clip}; IlluminationCorrection "
    "7 colour spaces + 2 unit scalings; TransformationCorrection with affine maps {identity, shift, fitted identity, fitted shift, quarter "
    "turn, resampling; 3-D identity, shift} and generalised perspective {fitted identity, shift, resampling}) x input kind {ndarray, "
    "ndarray RGB, ScalarImage, general vector Image, OpticalImage, scalar series, optical series, series with a single time step; 3-D: ndarray, scalar Image, scalar series} "
    "the correction accepts x dtype {uint8, uint16, float32, float64} x shapes; BFS over (correction, input) with ops overwrite in {F, T} to "
    "the stated depth with de-duplication + all sequences of length <= 2 without; successors of an overwrite that changed the array shape "
    "are not expanded (shape-configured corrections). compose roots: ordered correction pairs x image kinds x dtypes. reconfigure roots: "
    "a USED correction object re-configured through its own save()/load() (or re-assignment of the public scaling) to another configuration "
    "of its family (illumination pattern<->unit, curvature bulge->zero->stretch, type uint8->uint16) == a fresh object so configured. Non-trivial = a "
    "transition whose corrected data differs from the raw input in values, dtype or shape, or one that evaluates the neutral clause; "
    "distinct = distinct (config, kind, dtype, shape, call history)."
)
ASSUMPTIONS = [
    "ColorCorrection(active=False) converts to float32 intensities by design; 'pixel values unchanged' is read as 'intensity unchanged' (x/255, x/65535 for integer inputs) there and as numerically equal everywhere else",
    "unconfigured placeholder objects meant for load() (ColorCorrection() without config, TypeCorrection() without type, IlluminationCorrection() without scaling) are outside the quantifier; TranslationCorrection() sets active=False itself and is inside",
    "OpenCV's global RNG (k-means in the colour-checker extraction, RANSAC in drift estimation) is seeded identically before the call under test and before the reference application",
    "a shape-configured correction (crop, coordinate systems) is applied only to inputs of the shape it was configured for",
    "images with an extent of 1 voxel are not enumerated",
]

D0 = datetime.datetime(2023, 5, 1, 12, 0, 0)
DTYPES = ["uint8", "uint16", "float32", "float64"]
K2D = ["array", "array-rgb", "scalar", "image", "optical", "scalar-series", "optical-series", "scalar-series1", "optical-series1", "scalar-series-appended", "scalar-series-readonly"]
KRGB = ["array-rgb", "image", "optical", "optical-series", "optical-series1"]
K3D = ["array3d", "scalar3d", "scalar3d-series"]
KCLASS = {
    "array": "array",
    "array-rgb": "array-vector",
    "array3d": "array",
    "scalar": "scalar",
    "scalar3d": "scalar",
    "image": "vector",
    "optical": "vector",
    "scalar-series": "scalar-series",
    "scalar3d-series": "scalar-series",
    "optical-series": "vector-series",
    # series with exactly ONE time step (a series all the same)
    "scalar-series1": "scalar-series",
    "optical-series1": "vector-series",
    # a series assembled with the public append(): one slice + an appended two-slice series
    "scalar-series-appended": "scalar-series",
    # a series around pixel data that cannot be written to (memory-mapped / frombuffer arrays)
    "scalar-series-readonly": "scalar-series",
}
SHAPES = {
    "quick": {"2d": [(5, 5), (6, 8)], "wide": [(5, 5), (6, 8)], "3d": [(3, 4, 5)], "checker": [(40, 60)], "drift": [(160, 200)]},
    "thorough": {"2d": [(4, 4), (5, 7), (8, 6), (5, 5), (6, 8)], "wide": [(5, 5), (6, 8)], "3d": [(3, 4, 5), (4, 3, 3)], "checker": [(40, 60)], "drift": [(160, 200)]},
}
DEPTH = {"quick": {"light": 3, "heavy": 2}, "thorough": {"light": 5, "heavy": 3}}
NT = 2  # time steps (differs from the 3 colour components on purpose)

ILLUM_SPACES = ["rgb", "rgb-scalar", "lab", "lab-scalar", "hsl", "hsl-scalar", "gray"]


def _cfg(name, cellname, kinds, shapes="2d", neutral=None, weight="light", dtypes=None, proto=False):
    return {"name": name, "cell": cellname, "kinds": kinds, "shapes": shapes, "neutral": neutral, "weight": weight, "dtypes": dtypes, "proto": proto}


CONFIGS = collections.OrderedDict()
for _t in ("bool", "float", "float32", "float64", "int", "uint8", "uint16"):
    CONFIGS[f"type/{_t}"] = _cfg(f"type/{_t}", "type", K2D)
CONFIGS["rotation/2d-zero"] = _cfg("rotation/2d-zero", "rotation/2d", K2D, neutral="values")
CONFIGS["rotation/2d-quarter"] = _cfg("rotation/2d-quarter", "rotation/2d", K2D)
CONFIGS["rotation/2d-generic"] = _cfg("rotation/2d-generic", "rotation/2d", K2D)
CONFIGS["rotation/3d-zero"] = _cfg("rotation/3d-zero", "rotation/3d", K3D, "3d", neutral="values")
CONFIGS["rotation/3d-quarter-x"] = _cfg("rotation/3d-quarter-x", "rotation/3d", K3D, "3d")
CONFIGS["rotation/3d-two"] = _cfg("rotation/3d-two", "rotation/3d", K3D, "3d")
CONFIGS["translation/inactive"] = _cfg("translation/inactive", "translation/inactive", K2D, neutral="values")
CONFIGS["translation/zero"] = _cfg("translation/zero", "translation/active", K2D, neutral="values")
CONFIGS["translation/shift"] = _cfg("translation/shift", "translation/active", K2D)
CONFIGS["translation/half"] = _cfg("translation/half", "translation/active", K2D)
CONFIGS["curvature/empty"] = _cfg("curvature/empty", "curvature/neutral", K2D, neutral="values")
CONFIGS["curvature/zero"] = _cfg("curvature/zero", "curvature/neutral", K2D, neutral="values")
CONFIGS["curvature/zero-offcentre"] = _cfg("curvature/zero-offcentre", "curvature/neutral", K2D, neutral="values")
CONFIGS["curvature/bulge"] = _cfg("curvature/bulge", "curvature/warp", K2D)
CONFIGS["curvature/stretch"] = _cfg("curvature/stretch", "curvature/warp", K2D)
CONFIGS["curvature/crop"] = _cfg("curvature/crop", "curvature/crop", K2D)
CONFIGS["curvature/all"] = _cfg("curvature/all", "curvature/crop", K2D)
CONFIGS["curvature/bulge-filecache"] = _cfg("curvature/bulge-filecache", "curvature/filecache", K2D)
CONFIGS["drift/inactive"] = _cfg("drift/inactive", "drift/inactive", K2D, neutral="values")
CONFIGS["drift/inactive-nobase"] = _cfg("drift/inactive-nobase", "drift/inactive", K2D, neutral="values")
CONFIGS["drift/active"] = _cfg("drift/active", "drift/active", KRGB, "drift", weight="heavy", dtypes=["uint8", "float64"])
CONFIGS["drift/active-roi"] = _cfg("drift/active-roi", "drift/active", KRGB, "drift", weight="heavy", dtypes=["uint8", "float64"])
CONFIGS["color/inactive"] = _cfg("color/inactive", "color/inactive", KRGB, neutral="intensity")
# inactive although clipping is configured, on float data reaching outside [0, 1] ("wide" payload)
CONFIGS["color/inactive-clip"] = _cfg("color/inactive-clip", "color/inactive", KRGB, "wide", neutral="intensity")
CONFIGS["color/darsia"] = _cfg("color/darsia", "color/active", KRGB, "checker", weight="heavy")
CONFIGS["color/colour"] = _cfg("color/colour", "color/active", KRGB, "checker", weight="heavy")
CONFIGS["color/custom-linear-clip"] = _cfg("color/custom-linear-clip", "color/active", KRGB, "checker", weight="heavy")
for _s in ILLUM_SPACES:
    CONFIGS[f"illumination/{_s}-pattern"] = _cfg(f"illumination/{_s}-pattern", "illumination", KRGB)
CONFIGS["illumination/rgb-unit"] = _cfg("illumination/rgb-unit", "illumination", KRGB, neutral="values")
CONFIGS["illumination/hsl-scalar-unit"] = _cfg("illumination/hsl-scalar-unit", "illumination", KRGB, neutral="values")
CONFIGS["affine/2d-identity-set"] = _cfg("affine/2d-identity-set", "affine/2d", K2D, neutral="values")
CONFIGS["affine/2d-shift-set"] = _cfg("affine/2d-shift-set", "affine/2d", K2D)
CONFIGS["affine/2d-identity-fit"] = _cfg("affine/2d-identity-fit", "affine/2d", K2D, neutral="values", proto=True)
CONFIGS["affine/2d-shift-fit"] = _cfg("affine/2d-shift-fit", "affine/2d", K2D, proto=True)
# fitted from physical points (Coordinates) on coordinate systems whose voxel size is not a power of two (0.1)
CONFIGS["affine/2d-identity-fit-coord"] = _cfg("affine/2d-identity-fit-coord", "affine/2d", K2D, neutral="values", proto=True)
CONFIGS["gp/identity-fit-coord"] = _cfg("gp/identity-fit-coord", "gp", K2D, neutral="values", proto=True)
CONFIGS["affine/2d-quarter-set"] = _cfg("affine/2d-quarter-set", "affine/2d", K2D)
CONFIGS["affine/2d-resample"] = _cfg("affine/2d-resample", "affine/2d-resample", K2D)
CONFIGS["affine/3d-identity-set"] = _cfg("affine/3d-identity-set", "affine/3d", K3D, "3d", neutral="values")
CONFIGS["affine/3d-shift-set"] = _cfg("affine/3d-shift-set", "affine/3d", K3D, "3d")
CONFIGS["gp/identity-fit"] = _cfg("gp/identity-fit", "gp", K2D, neutral="values", proto=True)
CONFIGS["gp/shift"] = _cfg("gp/shift", "gp", K2D, proto=True)
CONFIGS["gp/resample"] = _cfg("gp/resample", "gp-resample", K2D, proto=True)

# ordered pairs for clause (f); the first correction keeps the shape the second is configured for
PAIRS = [
    ("type/float64", "translation/shift", K2D),
    ("translation/shift", "curvature/crop", K2D),
    ("curvature/bulge", "type/uint8", K2D),
    ("rotation/2d-quarter", "translation/shift", K2D),
    ("translation/shift", "rotation/2d-quarter", K2D),
    ("illumination/rgb-pattern", "color/inactive", KRGB),
    ("affine/2d-shift-set", "gp/resample", K2D),
    ("drift/inactive", "curvature/zero", K2D),
    ("gp/shift", "translation/half", K2D),
]


def describe(tier):
    return {
        "configurations": len(CONFIGS),
        "shapes": {k: [list(s) for s in v] for k, v in SHAPES[tier].items()},
        "dtypes": DTYPES,
        "bfs_depth": DEPTH[tier],
        "undeduplicated_sequences_up_to": 2,
        "time_steps": NT,
        "compose_pairs": len(PAIRS),
    }


def cases(tier):
    out = []
    for name, cfg in CONFIGS.items():
        for shape in SHAPES[tier][cfg["shapes"]]:
            for kind in cfg["kinds"]:
                for dt in cfg["dtypes"] or DTYPES:
                    if tier == "quick" and cfg["weight"] == "heavy" and cfg["dtypes"] is None and dt in ("uint16", "float32"):
                        continue
                    if (kind.endswith("series1") or kind.endswith("appended") or kind.endswith("readonly")) and (dt in ("uint16", "float32") or shape != SHAPES[tier][cfg["shapes"]][0]):
                        continue
                    out.append({"kind": "bfs", "config": name, "input": kind, "dtype": dt, "shape": list(shape), "depth": DEPTH[tier][cfg["weight"]]})
    for c1, c2, kinds in PAIRS:
        for kind in kinds:
            if kind.startswith("array"):
                continue
            for dt in DTYPES:
                for shape in SHAPES[tier]["2d"][-2:]:
                    out.append({"kind": "compose", "pair": [c1, c2], "input": kind, "dtype": dt, "shape": list(shape)})
    # re-configuration of a USED object (through the class's own load(), or by re-assigning the
    # public parameter the harness configures it with): it then is the correction with the new
    # parameters, exactly as a fresh object configured that way
    for c1, c2, how in RECONF:
        for kind in CONFIGS[c1]["kinds"]:
            for dt in ("float64", "uint8"):
                shape = SHAPES[tier][CONFIGS[c1]["shapes"]][-1]
                out.append({"kind": "reconfigure", "pair": [c1, c2], "how": how, "input": kind, "dtype": dt, "shape": list(shape)})
    order = list(CONFIGS)
    out.sort(
        key=lambda c: (
            {"bfs": 0, "reconfigure": 1}.get(c["kind"], 2),
            CONFIGS[c["config"]]["weight"] == "heavy" if c["kind"] == "bfs" else False,
            int(np.prod(c["shape"])),
            order.index(c["config"]) if c["kind"] == "bfs" else 0,
        )
    )
    return out


# ------------------------------------------------------------------------------ payloads
_WIDE = [False]


def payload(full_shape, dtype):
    """Provenance-like payload: dyadic floats in (0, 1] (in (-0.5, 1.5] for the "wide" payload), non-zero integers."""
    if _WIDE[0] and dtype not in ("uint8", "uint16"):
        _WIDE[0] = False
        try:
            return (2.0 * payload(full_shape, dtype) - 0.5).astype(dtype)
        finally:
            _WIDE[0] = True
    n = int(np.prod(full_shape))
    idx = np.arange(n, dtype=np.int64).reshape(full_shape)
    if dtype == "uint8":
        return ((idx * 7 + 3) % 200 + 1).astype(np.uint8)
    if dtype == "uint16":
        return ((idx * 131) % 40000 + 257).astype(np.uint16)
    vals = ((idx * 5) % 509 + 1) / 512.0
    if dtype == "float64":
        # low-order bits that single precision cannot hold (still exact in double precision): a detour
        # through float32 anywhere in a correction shows up in an exact comparison
        vals = vals + ((idx % 7) + 1) * 2.0**-40
    return vals.astype(dtype)


def _as_dtype(unit_img, dtype):
    """[0,1] float image -> requested dtype (intensity convention)."""
    if dtype == "uint8":
        return np.round(unit_img * 255).astype(np.uint8)
    if dtype == "uint16":
        return np.round(unit_img * 65535).astype(np.uint16)
    return unit_img.astype(dtype)


def _checker(shape, tint):
    import darsia

    H, W = shape
    bs_r, bs_c = H // 4, W // 6
    ref = np.asarray(darsia.ColorCheckerAfter2014().swatches_rgb, dtype=np.float64)
    img = np.zeros((H, W, 3))
    for a in range(4):
        for b in range(6):
            img[a * bs_r : (a + 1) * bs_r, b * bs_c : (b + 1) * bs_c] = np.clip(ref[a, b] * np.array(tint), 0, 1)
    return img


def _texture(shape):
    H, W = shape
    i, j = np.meshgrid(np.arange(H, dtype=np.int64), np.arange(W, dtype=np.int64), indexing="ij")
    bi, bj = i // 8, j // 8
    v1 = ((bi * 37 + bj * 101 + bi * bj * 13) * 2654435761 % 2**32) >> 24
    v2 = ((bi * 57 + bj * 31 + 7) * 2246822519 % 2**32) >> 24
    v3 = ((bi * 11 + bj * 73 + 3) * 3266489917 % 2**32) >> 24
    return np.stack([v1, v2, v3], axis=-1).astype(np.uint8)


def _shifted(tex, tx, ty):
    out = np.zeros_like(tex)
    H, W = tex.shape[:2]
    for i in range(H):
        si = i - ty
        if 0 <= si < H:
            lo, hi = max(0, tx), min(W, W + tx)
            out[i, lo:hi] = tex[si, lo - tx : hi - tx]
    return out


def _frames(special, shape, dtype, n):
    """n RGB frames (H, W, 3) of the special payloads."""
    if special == "checker":
        tints = [(0.75, 1.0, 0.5), (1.0, 0.5, 0.75)]
        return [_as_dtype(_checker(shape, tints[k]), dtype) for k in range(n)]
    tex = _texture(shape)
    shifts = [(6, -4), (-3, 5)]
    return [_as_dtype(_shifted(tex, *shifts[k]) / 255.0, dtype) if dtype != "uint8" else _shifted(tex, *shifts[k]) for k in range(n)]


def dims_of(shape):
    return [[0.5, 0.25, 1.0][a] * shape[a] for a in range(len(shape))]


def make_input(kind, shape, dtype, special="2d"):
    _WIDE[0] = special == "wide"
    try:
        return _make_input(kind, shape, dtype, special)
    finally:
        _WIDE[0] = False


def _make_input(kind, shape, dtype, special="2d"):
    import darsia

    shape = tuple(shape)
    dims = dims_of(shape)
    rgb_special = special in ("checker", "drift")

    def rgb(n=None):
        if rgb_special:
            fr = _frames(special, shape, dtype, n or 1)
            return fr[0] if n is None else np.stack(fr, axis=2)
        return payload(shape + ((3,) if n is None else (n, 3)), dtype)

    if kind in ("array", "array3d"):
        return payload(shape, dtype)
    if kind == "array-rgb":
        return rgb()
    if kind == "scalar":
        im = darsia.ScalarImage(payload(shape, dtype), dimensions=dims, date=D0, reference_date=D0 - datetime.timedelta(hours=1), time=7.25, name="scalar")
        im.set_time(7.25)  # explicit relative time, deliberately NOT date - reference_date (given to the constructor and set again afterwards)
        return im
    if kind == "image":
        return darsia.Image(rgb(), space_dim=2, scalar=False, dimensions=dims, origin=[1.0, 4.0], time=1.5, name="general")
    if kind == "optical":
        return darsia.OpticalImage(rgb(), dimensions=dims, color_space="RGB", name="optical")
    if kind == "scalar-series-readonly":
        data = payload(shape + (NT,), dtype)
        img_ro = darsia.ScalarImage(data, dimensions=dims, series=True, time=[0.0, 2.5], name="scalar-series-readonly")
        img_ro.img.setflags(write=False)
        return img_ro
    if kind == "scalar-series-appended":
        data = payload(shape + (3,), dtype)
        first = darsia.ScalarImage(data[..., :1].copy(), dimensions=dims, series=True, time=[0.0], name="scalar-series-appended")
        first.append(darsia.ScalarImage(data[..., 1:].copy(), dimensions=dims, series=True, time=[2.5, 7.0], name="tail"))
        return first
    if kind == "scalar-series1":
        return darsia.ScalarImage(payload(shape + (1,), dtype), dimensions=dims, series=True, time=[2.5], name="scalar-series1")
    if kind == "optical-series1":
        return darsia.OpticalImage(rgb(1), dimensions=dims, series=True, date=[D0], reference_date=D0 - datetime.timedelta(hours=1), color_space="RGB", name="optical-series1")
    if kind == "scalar-series":
        return darsia.ScalarImage(payload(shape + (NT,), dtype), dimensions=dims, series=True, time=[0.0, 2.5], name="scalar-series")
    if kind == "optical-series":
        im = darsia.OpticalImage(
            rgb(NT),
            dimensions=dims,
            series=True,
            date=[D0 + datetime.timedelta(hours=k) for k in range(NT)],
            reference_date=D0 - datetime.timedelta(hours=1),
            time=[45.0 * k + 0.5 for k in range(NT)],  # as after append(offset=...): not what the dates imply
            color_space="BGR" if not rgb_special else "RGB",
            name="optical-series",
        )
        im.set_time([45.0 * k + 0.5 for k in range(NT)])
        return im
    if kind == "scalar3d":
        return darsia.Image(payload(shape, dtype), space_dim=3, scalar=True, dimensions=dims, time=0.5, name="scalar3d")
    if kind == "scalar3d-series":
        return darsia.Image(payload(shape + (NT,), dtype), space_dim=3, scalar=True, series=True, dimensions=dims, time=[1.0, 3.0], name="scalar3d-series")
    raise AssertionError(kind)


# -------------------------------------------------------------------------- corrections
_COUNTER = itertools.count()
_PROTO: dict = {}
TYPES = {"bool": bool, "float": float, "float32": np.float32, "float64": np.float64, "int": int, "uint8": np.uint8, "uint16": np.uint16}
TRANSLATIONS = {"zero": [[1, 0, 0], [0, 1, 0]], "shift": [[1, 0, 2], [0, 1, -1]], "half": [[1, 0, 0.5], [0, 1, 0]]}
CROP_WH = (2.0, 1.0)  # physical width, height written into the crop config


def _translation_file(key):
    path = os.path.join(env.scratch_dir(), f"c10-{os.getpid()}-translation-{key}.npy")
    if not os.path.exists(path):
        np.save(path, np.array(TRANSLATIONS[key], dtype=np.float32))
    return path


def _cs(shape, dims=None):
    import darsia

    shape = tuple(shape)
    return darsia.Image(np.zeros(shape), space_dim=len(shape), scalar=True, dimensions=list(dims or dims_of(shape))).coordinatesystem


def _illum_scalings(shape, n, unit):
    """n dyadic local-scaling arrays for a (H, W) image."""
    H, W = shape
    i, j = np.meshgrid(np.arange(H), np.arange(W), indexing="ij")
    if unit:
        return [np.ones((H, W)) for _ in range(n)]
    return [0.5 + 0.25 * ((i + 2 * j + k) % 4) for k in range(n)]


def _corner_voxels(shape):
    H, W = shape
    return [[0, 0], [H - 1, 0], [H - 1, W - 1], [0, W - 1]]


def _resample_shape(shape):
    return (shape[0] - 1, shape[1] + 1)


def _build(name, shape):
    import darsia

    shape = tuple(shape)
    fam, sub = name.split("/", 1)
    if fam == "type":
        return darsia.TypeCorrection(TYPES[sub])
    if fam == "rotation":
        if sub == "2d-zero":
            return darsia.RotationCorrection(anchor=[2, 3], rotations=[0.0])
        if sub == "2d-quarter":
            return darsia.RotationCorrection(anchor=[2, 3], rotations=[0.5 * np.pi])
        if sub == "2d-generic":
            return darsia.RotationCorrection(anchor=[2, 3], rotations=[0.25])
        if sub == "3d-zero":
            return darsia.RotationCorrection(anchor=[1, 1, 2], rotations=[(0.0, "x"), (0.0, "z")])
        if sub == "3d-quarter-x":
            return darsia.RotationCorrection(anchor=[1, 1, 2], rotations=[(0.5 * np.pi, "x")])
        if sub == "3d-two":
            return darsia.RotationCorrection(anchor=[1, 1, 2], rotations=[(0.25, "z"), (0.5 * np.pi, "y")])
    if fam == "translation":
        if sub == "inactive":
            return darsia.TranslationCorrection()
        return darsia.TranslationCorrection(_translation_file(sub))
    if fam == "curvature":
        H, W = shape
        zero_b = {"horizontal_bulge": 0.0, "horizontal_center_offset": 0, "vertical_bulge": 0.0, "vertical_center_offset": 0}
        zero_s = {"horizontal_stretch": 0.0, "horizontal_center_offset": 0, "vertical_stretch": 0.0, "vertical_center_offset": 0}
        bulge = {"horizontal_bulge": 0.015625, "horizontal_center_offset": 1, "vertical_bulge": 0.03125, "vertical_center_offset": 0}
        stretch = {"horizontal_stretch": 0.015625, "horizontal_center_offset": 0, "vertical_stretch": -0.0078125, "vertical_center_offset": -1}
        crop = {"pts_src": [[1, 1], [1, H - 1], [W - 1, H - 1], [W - 1, 1]], "width": CROP_WH[0], "height": CROP_WH[1], "in meters": True}
        with env.quiet():
            if sub == "empty":
                return darsia.CurvatureCorrection(config={})
            if sub == "zero":
                return darsia.CurvatureCorrection(config={"init": dict(zero_b), "bulge": dict(zero_b), "stretch": dict(zero_s)})
            if sub == "zero-offcentre":
                # zero bulge and stretch are neutral wherever the centre is put
                off_b = {"horizontal_bulge": 0.0, "horizontal_center_offset": 1, "vertical_bulge": 0.0, "vertical_center_offset": -2}
                off_s = {"horizontal_stretch": 0.0, "horizontal_center_offset": -1, "vertical_stretch": 0.0, "vertical_center_offset": 1}
                return darsia.CurvatureCorrection(config={"init": dict(off_b), "bulge": dict(off_b), "stretch": dict(off_s)})
            if sub == "bulge":
                return darsia.CurvatureCorrection(config={"bulge": bulge})
            if sub == "stretch":
                return darsia.CurvatureCorrection(config={"stretch": stretch}, interpolation_order=0)
            if sub == "crop":
                return darsia.CurvatureCorrection(config={"crop": crop})
            if sub == "all":
                return darsia.CurvatureCorrection(config={"init": dict(bulge), "crop": crop, "bulge": dict(zero_b), "stretch": stretch})
            if sub == "bulge-filecache":
                path = os.path.join(env.scratch_dir(), f"c10-{os.getpid()}-curvature-{next(_COUNTER)}.npy")
                return darsia.CurvatureCorrection(config={"bulge": bulge, "use_cache": True, "cache": path})
    if fam == "drift":
        if sub == "inactive":
            return darsia.DriftCorrection(base=np.zeros(shape + (3,), dtype=np.uint8), config={"active": False})
        if sub == "inactive-nobase":
            return darsia.DriftCorrection(config={"active": False})
        if sub == "active":
            return darsia.DriftCorrection(base=_texture(shape))
        if sub == "active-roi":
            H, W = shape
            return darsia.DriftCorrection(base=_texture(shape), config={"roi": (slice(16, H - 16), slice(24, W - 16))})
    if fam == "color":
        H, W = shape
        roi = [[0, 0], [H, 0], [H, W], [0, W]]
        if sub == "inactive":
            return darsia.ColorCorrection(config={"roi": roi, "active": False})
        if sub == "inactive-clip":
            return darsia.ColorCorrection(config={"roi": roi, "active": False, "clip": True})
        if sub == "darsia":
            return darsia.ColorCorrection(config={"roi": roi, "balancing": "darsia"})
        if sub == "colour":
            return darsia.ColorCorrection(config={"roi": roi, "balancing": "colour"})
        if sub == "custom-linear-clip":
            ref = (((np.arange(72).reshape(4, 6, 3) * 11) % 61 + 2) / 64.0).astype(np.float32)
            return darsia.ColorCorrection(
                base=darsia.CustomColorChecker(reference_colors=ref),
                config={"roi": roi, "balancing": "darsia", "whitebalancing": False, "colorbalancing": "linear", "clip": True},
            )
    if fam == "illumination":
        space, mode = sub.rsplit("-", 1)
        c = darsia.IlluminationCorrection()
        c.colorspace = space
        c.local_scaling = [darsia.ScalarImage(s, dimensions=dims_of(shape)) for s in _illum_scalings(shape, 3 if space == "rgb" else 1, mode == "unit")]
        return c
    if fam == "affine":
        dim = 3 if sub.startswith("3d") else 2
        if sub.endswith("-set"):
            T = darsia.AffineTransformation(dim)
            if "identity" in sub or "shift" in sub:
                pts = darsia.make_voxel([[0] * dim, [1] * dim])
                T.set_dtype(pts, pts)
                if "shift" in sub:
                    T.set_parameters(translation=np.array(AFFINE_SHIFT[dim], dtype=float))
            else:  # quarter turn about the image centre, in physical coordinates
                pts = darsia.make_coordinate([[0.0] * dim, [1.0] * dim])
                T.set_dtype(pts, pts)
                T.set_parameters(translation=np.array([0.25, 0.5]), rotation=np.array([0.5 * np.pi]))
            return darsia.TransformationCorrection(_cs(shape), _cs(shape), T)
        if sub == "2d-resample":
            T = darsia.AffineTransformation(2)
            pts = darsia.make_coordinate([[0.0, 0.0], [1.0, 1.0]])
            T.set_dtype(pts, pts)
            return darsia.TransformationCorrection(_cs(shape), _cs(_resample_shape(shape), dims_of(shape)), T)
        if sub == "2d-identity-fit-coord":
            cs01 = _cs(shape, [0.1 * shape[0], 0.1 * shape[1]])
            P = cs01.coordinate(np.array(_corner_voxels(shape)) + 0.5)
            with env.quiet():
                return darsia.AffineCorrection(cs01, _cs(shape, [0.1 * shape[0], 0.1 * shape[1]]), darsia.make_coordinate(np.asarray(P)), darsia.make_coordinate(np.asarray(P).copy()), {"tol": 1e-10, "maxiter": 10000})
        src = np.array(_corner_voxels(shape))
        dst = src if sub == "2d-identity-fit" else src + np.array([1, 2])
        with env.quiet():
            return darsia.AffineCorrection(_cs(shape), _cs(shape), darsia.make_voxel(src), darsia.make_voxel(dst), {"tol": 1e-8, "maxiter": 10000})
    if fam == "gp" and sub == "identity-fit-coord":
        cs01 = _cs(shape, [0.1 * shape[0], 0.1 * shape[1]])
        P = np.asarray(cs01.coordinate(np.array(_corner_voxels(shape)) + 0.5))
        with env.quiet():
            return darsia.GeneralizedPerspectiveCorrection(cs01, _cs(shape, [0.1 * shape[0], 0.1 * shape[1]]), darsia.make_coordinate(P), darsia.make_coordinate(P.copy()), {})
    if fam == "gp":
        pts = darsia.make_voxel(_corner_voxels(shape))
        cs_dst = _cs(_resample_shape(shape), [2.0, 3.0]) if sub == "resample" else _cs(shape)
        with env.quiet():
            c = darsia.GeneralizedPerspectiveCorrection(_cs(shape), cs_dst, pts, pts, {})
        if sub == "shift":
            p = c.transformation.default_parameters.copy()
            p[4:6] = [1.0, -2.0]
            c.transformation.set_parameters_as_vector(p)
        return c
    raise AssertionError(name)


AFFINE_SHIFT = {2: [1.0, -2.0], 3: [1.0, 0.0, -2.0]}


def build(name, shape):
    """A fresh, never applied correction.  Costly fits are built once per process and
    deep-copied from the unused prototype."""
    if CONFIGS[name]["proto"]:
        key = (name, tuple(shape))
        if key not in _PROTO:
            _PROTO[key] = _build(name, shape)
        return copy.deepcopy(_PROTO[key])
    return _build(name, shape)


# ---------------------------------------------------------------------- reference models
def _shift_model(a, shift):
    """out[v] = a[v - shift] inside the array, 0 outside (leading len(shift) axes)."""
    out = np.zeros_like(a)
    dim = len(shift)
    src, dst = [], []
    for ax in range(dim):
        n, s = a.shape[ax], int(shift[ax])
        lo, hi = max(0, s), min(n, n + s)
        if lo >= hi:
            return out
        dst.append(slice(lo, hi))
        src.append(slice(lo - s, hi - s))
    out[tuple(dst)] = a[tuple(src)]
    return out


def model_for(name, shape, dtype):
    """Independent per-slice model (array -> array) or None."""
    fam, sub = name.split("/", 1)
    if name == "translation/shift":
        return lambda a: _shift_model(a, (-1, 2))  # matrix [[1,0,2],[0,1,-1]]: 2 columns right, 1 row up
    if name == "affine/2d-shift-set":
        return lambda a: _shift_model(a, (1, -2))
    if name == "affine/3d-shift-set":
        return lambda a: _shift_model(a, (1, 0, -2))
    if fam == "illumination":
        space, mode = sub.rsplit("-", 1)
        sc = _illum_scalings(shape, 3 if space == "rgb" else 1, mode == "unit")

        def f(a):
            out = np.empty(a.shape, dtype=np.float64)
            for ch in range(3):
                out[..., ch] = a[..., ch].astype(np.float64) * sc[ch if space == "rgb" else 0]
            if a.dtype.kind == "u":
                out = np.floor(out)
            return out.astype(a.dtype)

        return f
    return None


def declared_metadata(name, shape):
    if name in ("curvature/crop", "curvature/all"):
        return {"dimensions": [CROP_WH[1], CROP_WH[0]], "origin": [0.0, CROP_WH[1]]}
    if name == "gp/resample":
        return {"dimensions": [2.0, 3.0], "origin": [0.0, 2.0]}
    if name in ("gp/identity-fit", "gp/shift"):
        d = dims_of(shape)
        return {"dimensions": [float(d[0]), float(d[1])], "origin": [0.0, float(d[0])]}
    return None


# ------------------------------------------------------------------------------ helpers
def data_of(x):
    return x if isinstance(x, np.ndarray) else x.img


def same(a, b):
    return isinstance(a, np.ndarray) and isinstance(b, np.ndarray) and a.dtype == b.dtype and a.shape == b.shape and np.array_equal(a, b, equal_nan=(a.dtype.kind == "f"))


def _tnorm(v):
    if isinstance(v, (list, tuple)):
        return [_tnorm(w) for w in v]
    if isinstance(v, (datetime.datetime, datetime.date)):
        return v.isoformat()
    if isinstance(v, (np.floating, np.integer)):
        return float(v)
    if isinstance(v, int) and not isinstance(v, bool):
        return float(v)
    return v


def _norm_meta(d):
    out = {}
    for k, v in d.items():
        if k == "dimensions":
            out[k] = [float(w) for w in v]
        elif k == "origin":
            out[k] = [float(w) for w in np.asarray(v, dtype=float).ravel()]
        elif k in ("date", "reference_date", "time"):
            out[k] = _tnorm(v)
        elif k in ("series", "scalar"):
            out[k] = bool(v)
        elif k == "space_dim":
            out[k] = int(v)
        else:
            out[k] = v
    return out


def meta_of(im):
    """Metadata read attribute by attribute (independent of Image.metadata())."""
    d = {
        "space_dim": im.space_dim,
        "indexing": im.indexing,
        "dimensions": im.dimensions,
        "origin": im.origin,
        "series": im.series,
        "scalar": im.scalar,
        "date": im.date,
        "reference_date": im.reference_date,
        "time": im.time,
        "name": im.name,
    }
    if hasattr(im, "color_space"):
        d["color_space"] = im.color_space
    return _norm_meta(d)


def _slices(raw, sd):
    return [np.array(raw[(slice(None),) * sd + (t,)]) for t in range(raw.shape[sd])]


def ref_apply(corr, raw, series, sd):
    """'the correction applied to the raw array'; for a series slice by slice, re-stacked."""
    if not series:
        return corr.correct_array(raw.copy())
    return np.stack([corr.correct_array(s) for s in _slices(raw, sd)], axis=sd)


def values_unchanged(y, raw, mode):
    if y.shape != raw.shape:
        return False
    if mode == "values":
        return bool(np.array_equal(y.astype(np.float64), raw.astype(np.float64)))
    scale = {"uint8": 255.0, "uint16": 65535.0}.get(str(raw.dtype), 1.0)
    return bool(np.allclose(y.astype(np.float64), raw.astype(np.float64) / scale, rtol=0, atol=2.0**-20))


def legit_refusal(name, exc):
    # feature matching may find no translation: documented ValueError of the estimator
    return name.startswith("drift/active") and isinstance(exc, ValueError) and "cannot be aligned" in str(exc)


def crash_cell(case, exc, where):
    tag = case.get("config") or "+".join(case.get("pair", []))
    return f"C10/crash/{tag}/{type(exc).__name__}@{where}"


# ---------------------------------------------------------------------------- the search
def run_bfs(case, r):
    name, kind, dtype, shape = case["config"], case["input"], case["dtype"], tuple(case["shape"])
    cfg = CONFIGS[name]
    kc = KCLASS[kind]
    special = cfg["shapes"]
    sd = len(shape)

    def cell(clause):
        return f"C10/{clause}/{cfg['cell']}/{kc}"

    mk = lambda: build(name, shape)  # noqa: E731
    model = model_for(name, shape, dtype)
    decl = declared_metadata(name, shape)

    def transition(c, x, ow, hist):
        """Executes one real call on (c, x); returns (ok, x_after, expandable)."""
        is_arr = isinstance(x, np.ndarray)
        first = not hist
        raw = data_of(x).copy()
        pre = digest(x)
        series = (not is_arr) and bool(x.series)
        m0 = None if is_arr else meta_of(x)
        md = None if is_arr else copy.deepcopy(x.metadata())
        xpre = copy.deepcopy(x) if (first and series) else None
        x_data_before = data_of(x)
        env.reseed(0)
        try:
            y = c(x, overwrite=ow)
        except Exception as e:  # noqa: BLE001
            if legit_refusal(name, e):
                r.ok()
                r.outcome((name, kind, "refused"))
                return False, None, False
            r.fail(cell("usable"), "applying a correction built without interaction to an input of a kind it is meant for does not raise", overwrite=ow, history=hist, exception=f"{type(e).__name__}: {e}"[:300])
            return False, None, False
        if y is None:
            r.fail(cell("usable"), "the call returns the corrected array / image", overwrite=ow, history=hist, returned=None)
            return False, None, False
        env.reseed(0)
        try:
            want = ref_apply(mk(), raw, series, sd)
        except Exception as e:  # noqa: BLE001
            r.fail(cell("data"), "the correction can be applied to the raw array (per time slice) when the call on the image succeeds", overwrite=ow, history=hist, exception=f"{type(e).__name__}: {e}"[:300])
            return False, None, False
        ydata = data_of(y)
        if not isinstance(ydata, np.ndarray):
            r.fail(cell("data"), "result carries an array", got=type(ydata).__name__)
            return False, None, False

        r.check(
            same(ydata, want),
            cell("data"),
            "pixel data of the result == the correction applied to the raw array (series: per time slice, re-stacked)",
            overwrite=ow,
            history=hist,
            got_dtype=str(ydata.dtype),
            want_dtype=str(want.dtype),
            got_shape=list(ydata.shape),
            want_shape=list(want.shape),
            n_diff=int(np.sum(ydata != want)) if ydata.shape == want.shape else None,
        )
        if is_arr:
            if not ow:
                r.check(digest(x) == pre, cell("input-untouched"), "overwrite=False leaves the input array untouched", history=hist)
                r.check(y is not x and not np.shares_memory(y, x), cell("no-alias"), "overwrite=False returns an array that does not share memory with the input", history=hist)
            x_after = y if ow else x
        else:
            r.check(type(y) is type(x), cell("kind"), "result is an image of the same class", got=type(y).__name__, want=type(x).__name__, overwrite=ow)
            want_meta = dict(m0)
            want_meta.update(_norm_meta(mk().correct_metadata(md)))
            got_meta = meta_of(y)
            r.check(
                got_meta == want_meta,
                cell("metadata"),
                "metadata of the result == metadata of the input updated by the correction's declared updates",
                overwrite=ow,
                history=hist,
                diff={k: [got_meta.get(k), want_meta.get(k)] for k in want_meta if got_meta.get(k) != want_meta.get(k)},
            )
            if ow:
                r.check(y is x, cell("same-object"), "overwrite=True modifies and returns the very same object", history=hist)
            else:
                r.check(y is not x, cell("new-object"), "overwrite=False returns another object", history=hist)
                r.check(digest(x) == pre, cell("input-untouched"), "overwrite=False leaves the input image (data, metadata, containers) untouched", history=hist, data_changed=not same(x.img, raw))
                r.check(x.img is x_data_before, cell("input-untouched"), "overwrite=False keeps the input's own data array", history=hist)
                r.check(not np.shares_memory(ydata, x.img), cell("no-alias"), "overwrite=False returns data that does not share memory with the input", history=hist)
            x_after = x
            # ---- (d) through the API: correcting each time slice separately
            if first and series and isinstance(y, type(x)) and y.series:
                env.reseed(0)
                cs_ = mk()
                for t in range(xpre.time_num):
                    try:
                        zt = cs_(xpre.time_slice(t), overwrite=False)
                        yt = y.time_slice(t)
                    except Exception as e:  # noqa: BLE001
                        r.fail(cell("series"), "each time slice can be corrected separately and the result can be sliced", t=t, exception=f"{type(e).__name__}: {e}"[:300])
                        break
                    r.check(same(zt.img, yt.img), cell("series"), "correcting time slice t separately gives time slice t of the corrected series", t=t, overwrite=ow)
                    r.check(meta_of(zt) == meta_of(yt), cell("series"), "... with the same metadata (time stamp, date, placement)", t=t, overwrite=ow, got=meta_of(yt), want=meta_of(zt))
        # ---- (e) neutral parameters
        if cfg["neutral"]:
            r.check(values_unchanged(ydata, raw, cfg["neutral"]), cell("neutral"), "a correction configured with neutral parameters leaves pixel values unchanged", overwrite=ow, history=hist, got_dtype=str(ydata.dtype), in_dtype=str(raw.dtype), max_abs_change=float(np.max(np.abs(ydata.astype(np.float64) - raw.astype(np.float64)))) if ydata.shape == raw.shape else None)
        # ---- independent models on the known payload
        if first and model is not None:
            wm = np.stack([model(s) for s in _slices(raw, sd)], axis=sd) if series else model(raw)
            r.check(same(ydata, wm), cell("model"), "result equals the explicit reference model (index shift / product with the local scaling)", overwrite=ow, n_diff=int(np.sum(ydata != wm)) if ydata.shape == wm.shape else None)
        if first and decl is not None and not is_arr:
            gm = meta_of(y)
            r.check(gm["dimensions"] == decl["dimensions"] and gm["origin"] == decl["origin"], cell("model"), "declared metadata: dimensions / origin of the target frame", got=[gm["dimensions"], gm["origin"]], want=decl)
        if not same(ydata, raw) or cfg["neutral"]:
            r.nontriv((name, kind, dtype, shape, hist, ow))
        r.outcome((name, kind, dtype, shape, hist, ow, digest(ydata)))
        expandable = (not ow) or data_of(x_after).shape == tuple(INIT_SHAPE[0])
        return True, x_after, expandable

    x0 = make_input(kind, shape, dtype, special)
    INIT_SHAPE = [data_of(x0).shape]
    c0 = mk()
    depth = case["depth"]
    transitions = 0

    # ---- de-duplicated BFS
    seen = {digest([c0, x0])}
    frontier = collections.deque([((c0, x0), [])])
    complete = True
    while frontier:
        (c, x), hist = frontier.popleft()
        for ow in (False, True):
            ci, xi = copy.deepcopy((c, x))
            ok, xa, expandable = transition(ci, xi, ow, hist)
            transitions += 1
            if not ok:
                continue
            k = digest([ci, xa])
            if k in seen:
                continue
            seen.add(k)
            if not expandable:
                continue
            if len(hist) + 1 < depth:
                frontier.append(((ci, xa), hist + [ow]))
            else:
                complete = False
    # ---- un-deduplicated guard: every sequence of length <= 2 on one live pair
    for seq in itertools.chain(itertools.product((False, True), repeat=1), itertools.product((False, True), repeat=2)):
        ci, xi = mk(), make_input(kind, shape, dtype, special)
        hist = []
        for ow in seq:
            ok, xa, expandable = transition(ci, xi, ow, list(hist))
            transitions += 1
            if not ok or not expandable:
                break
            xi = xa
            hist = hist + [ow]
    r.count("states", len(seen))
    r.count("transitions", transitions)
    r.count("traces", transitions)
    if complete:
        r.count("fixpoints_reached", 1)


def run_compose(case, r):
    n1, n2 = case["pair"]
    kind, dtype, shape = case["input"], case["dtype"], tuple(case["shape"])
    kc = KCLASS[kind]
    cell = f"C10/compose/{CONFIGS[n1]['cell']}+{CONFIGS[n2]['cell']}/{kc}"
    x = make_input(kind, shape, dtype)
    cls = type(x)
    raw = x.img.copy()

    def fresh_image(**extra):
        return cls(raw.copy(), **copy.deepcopy(x.metadata()), **extra)

    results, errors = {}, {}
    for how in ("ctor", "stepwise", "stepwise-overwrite"):
        env.reseed(0)
        try:
            if how == "ctor":
                results[how] = fresh_image(transformations=[build(n1, shape), build(n2, shape)])
            elif how == "stepwise":
                results[how] = build(n2, shape)(build(n1, shape)(fresh_image(), overwrite=False), overwrite=False)
            else:
                im = fresh_image()
                build(n1, shape)(im, overwrite=True)
                build(n2, shape)(im, overwrite=True)
                results[how] = im
        except Exception as e:  # noqa: BLE001
            errors[how] = e
    r.count("transitions", 6)
    r.count("traces", 3)
    r.count("states", 3)
    if errors:
        # a correction that cannot be applied at all is reported by its own bfs root ("usable");
        # here only the agreement of the three routes is at stake
        r.check(len(errors) == 3 and len({type(e) for e in errors.values()}) == 1, cell, "constructor route and stepwise routes agree on refusing", errors={k: repr(v)[:200] for k, v in errors.items()})
        r.outcome((case["pair"], kind, "raise"))
        return
    a = results["ctor"]
    for how in ("stepwise", "stepwise-overwrite"):
        b = results[how]
        r.check(type(a) is type(b) and same(a.img, b.img), cell, "Image(arr, transformations=[c1, c2]) has the pixel data of c2(c1(Image(arr)))", route=how, got_dtype=str(a.img.dtype), want_dtype=str(b.img.dtype), got_shape=list(a.img.shape), want_shape=list(b.img.shape))
        r.check(meta_of(a) == meta_of(b), cell, "... and its metadata", route=how, got=meta_of(a), want=meta_of(b))
    r.nontriv((case["pair"], kind, dtype, shape))
    r.outcome((case["pair"], kind, dtype, shape, digest(a.img)))


# (rotation, translation, affine and generalised-perspective corrections do not offer save():
# NotImplementedError -- they cannot be re-configured through the library and are not listed)
RECONF = [
    ("illumination/rgb-pattern", "illumination/rgb-unit", "load"),
    ("illumination/rgb-pattern", "illumination/rgb-unit", "assign"),
    ("illumination/rgb-unit", "illumination/rgb-pattern", "load"),
    ("illumination/hsl-scalar-pattern", "illumination/hsl-scalar-unit", "assign"),
    ("curvature/bulge", "curvature/zero", "load"),
    ("curvature/zero", "curvature/stretch", "load"),
    ("type/uint8", "type/uint16", "load"),
    ("drift/active", "drift/inactive", "load"),
]


def run_reconfigure(case, r):
    import os

    n1, n2 = case["pair"]
    how, kind, dtype, shape = case["how"], case["input"], case["dtype"], tuple(case["shape"])
    kc = KCLASS[kind]
    cfg2 = CONFIGS[n2]
    cell = f"C10/reconfigured/{cfg2['cell']}/{how}/{kc}"
    special = CONFIGS[n1]["shapes"]
    env.reseed(0)
    c = build(n1, shape)
    x0 = make_input(kind, shape, dtype, special)
    try:
        c(copy.deepcopy(x0), overwrite=False)
        c(copy.deepcopy(x0), overwrite=True)
    except Exception as e:  # noqa: BLE001
        if legit_refusal(n1, e):
            r.ok()
            return
        raise
    target = build(n2, shape)
    if how == "load":
        import pathlib

        path = pathlib.Path(env.scratch_dir()) / f"c10-reconf-{os.getpid()}-{abs(hash((n1, n2, kind, dtype))) % 10**9}.npz"
        try:
            target.save(path)
            c.load(path)
        finally:
            if os.path.exists(path):
                os.remove(path)
    else:
        fam = n2.split("/")[0]
        assert fam == "illumination"
        c.colorspace = target.colorspace
        c.local_scaling = copy.deepcopy(target.local_scaling)
    r.count("transitions", 4)
    r.count("traces", 1)
    r.count("states", 3)
    for ow in (False, True):
        env.reseed(0)
        xa, xb = copy.deepcopy(x0), copy.deepcopy(x0)
        raw = data_of(x0).copy()
        try:
            want = build(n2, shape)(xb, overwrite=ow)
        except Exception as e:  # noqa: BLE001
            if legit_refusal(n2, e):
                r.ok()
                continue
            raise
        env.reseed(0)
        try:
            got = c(xa, overwrite=ow)
        except Exception as e:  # noqa: BLE001
            r.fail(cell, "a used correction re-configured with new parameters can be applied like a fresh one", overwrite=ow, exception=f"{type(e).__name__}: {e}"[:300])
            continue
        gd, wd = data_of(got), data_of(want)
        r.check(same(gd, wd), cell, "a used correction object re-configured with new parameters gives the pixel data of a fresh object configured with them", overwrite=ow, first=n1, got_dtype=str(gd.dtype), want_dtype=str(wd.dtype), max_abs=float(np.max(np.abs(gd.astype(np.float64) - wd.astype(np.float64)))) if gd.shape == wd.shape else None)
        if not isinstance(got, np.ndarray):
            r.check(meta_of(got) == meta_of(want), cell, "... and its metadata", overwrite=ow, got=meta_of(got), want=meta_of(want))
        if cfg2["neutral"]:
            r.check(values_unchanged(gd, raw, cfg2["neutral"]), cell + "/neutral", "re-configured with neutral parameters it leaves pixel values unchanged", overwrite=ow, first=n1)
    r.nontriv((case["pair"], how, kind, dtype))
    r.outcome((case["pair"], how, kind, dtype))


def run_case(case, r):
    if case["kind"] == "reconfigure":
        run_reconfigure(case, r)
    elif case["kind"] == "bfs":
        run_bfs(case, r)
    else:
        run_compose(case, r)
