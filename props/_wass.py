"""Shared harness for the Wasserstein properties (C04, C05, C08).

Drives the real solver classes; captures the flat solution by wrapping the *instance's*
``_solve`` and ``linear_solve`` (no source hook).  The reference quantities
(divergence, RT0 reconstruction, transport cost) are written out independently here.
"""

from __future__ import annotations

import itertools

import numpy as np

VS = {1: [0.5], 2: [0.5, 2.0], 3: [0.5, 2.0, 0.25]}


class InjectedFault(RuntimeError):
    pass


class InjectedOtherFault(Exception):
    """A failure that is none of the numerical exception types (e.g. raised by a back-end wrapper)."""


# what a failing inner linear solve may raise: a numerical error, exhaustion of memory in the
# factorisation, anything else derived from Exception
FAULT_KINDS = [InjectedFault, MemoryError, InjectedOtherFault]


class ScalarVS(list):
    """Voxel sizes equal on every axis and handed to ``darsia.Grid`` as ONE float."""


def voxel_sizes(dim, kind):
    if kind == "scalar":
        return ScalarVS([0.5] * dim)
    return [1.0] * dim if kind == "unit" else list(VS[dim])


def make_grid(shape, vs):
    import darsia

    if isinstance(vs, ScalarVS):
        return darsia.Grid(tuple(shape), float(vs[0]))
    return darsia.Grid(tuple(shape), list(vs))


def make_image(arr, vs, dtype=None):
    import darsia

    shape = arr.shape
    dim = len(shape)
    return darsia.Image(np.asarray(arr, dtype=dtype or float).copy(), space_dim=dim, scalar=True, dimensions=[vs[a] * shape[a] for a in range(dim)])


# ------------------------------------------------------------------ mass alphabets
def compositions(q, n):
    """All ways to place q unit quanta in n cells (as count vectors)."""
    if n == 1:
        yield (q,)
        return
    for k in range(q + 1):
        for rest in compositions(q - k, n - 1):
            yield (k,) + rest


def single_cell(shape, idx, amount=1.0):
    a = np.zeros(shape)
    a[tuple(idx)] = amount
    return a


def mass_pairs(shape, which):
    """Named deterministic equal-mass pairs on a grid."""
    shape = tuple(shape)
    n = int(np.prod(shape))
    cells = list(np.ndindex(*shape))
    first, last = cells[0], cells[-1]
    mid = tuple(s // 2 for s in shape)
    out = {}
    out["corner-to-corner"] = (single_cell(shape, first), single_cell(shape, last))
    out["corner-to-centre"] = (single_cell(shape, first), single_cell(shape, mid))
    # dense: all cells positive, different profiles, equal sums
    a = np.array([1.0 + (k % 3) for k in range(n)]).reshape(shape)
    b = np.array([1.0 + ((2 * k + 1) % 4) for k in range(n)]).reshape(shape)
    b = b * (a.sum() / b.sum())
    out["dense"] = (a, b)
    # sparse: two compact blobs near opposite corners (zero-flux regions elsewhere)
    s1 = np.zeros(shape)
    s2 = np.zeros(shape)
    s1[first] = 2.0
    s2[last] = 2.0
    if n >= 4:
        nb = cells[1]
        s1[nb] = 1.0
        s1[first] = 1.0
        nb2 = cells[-2]
        s2[nb2] = 1.0
        s2[last] = 1.0
    out["sparse"] = (s1, s2)
    return out[which]


# --------------------------------------------------------------- reference model
class Ref:
    """Independent reference operators on a darsia.Grid (connectivity from C07)."""

    def __init__(self, grid):
        self.g = grid
        self.dim = grid.dim
        self.shape = tuple(grid.shape)
        self.nc, self.nf = int(grid.num_cells), int(grid.num_faces)
        self.vs = np.asarray(grid.voxel_size, dtype=float)
        self.vol = float(np.prod(self.vs))
        self.conn = np.asarray(grid.connectivity)
        self.rc = np.asarray(grid.reverse_connectivity)
        self.axis_of = np.zeros(self.nf, dtype=int)
        for d in range(self.dim):
            self.axis_of[np.asarray(grid.faces[d], dtype=int)] = d
        self.area = np.array([np.prod(np.delete(self.vs, d)) for d in range(self.dim)])
        ci = np.asarray(grid.cell_index)
        self.pos = np.zeros((self.nc, self.dim), dtype=int)
        for idx in np.ndindex(*self.shape):
            self.pos[ci[idx]] = idx

    def divergence(self, flux):
        out = np.zeros(self.nc)
        a = self.area[self.axis_of]
        np.add.at(out, self.conn[:, 0], a * flux)
        np.add.at(out, self.conn[:, 1], -a * flux)
        return out

    def flat(self, arr):
        """cell array (grid shape) -> flat vector in the grid's cell numbering"""
        out = np.zeros(self.nc)
        ci = np.asarray(self.g.cell_index)
        out[ci.ravel()] = np.asarray(arr, dtype=float).ravel()
        return out

    def unflat(self, vec):
        ci = np.asarray(self.g.cell_index)
        return np.asarray(vec)[ci]

    def rt0(self, flux, pt):
        """(num_cells, dim) reconstructed flux at reference point pt in every cell."""
        fx = np.concatenate([np.asarray(flux, dtype=float), [0.0]])  # index -1 -> 0
        out = np.zeros((self.nc, self.dim))
        for d in range(self.dim):
            lo, up = self.rc[d, :, 0], self.rc[d, :, 1]
            out[:, d] = (1 - pt[d]) * fx[lo] + pt[d] * fx[up]
        return out

    def rule(self, l1_mode_name):
        import darsia

        q = darsia.quadrature
        if l1_mode_name == "RAVIART_THOMAS":
            # numerical integration of the RT0 field by the tensor Gauss-Legendre rule on the unit
            # cell.  Only the NUMBER of points per direction is read from the library (its "max"
            # order is a design choice); nodes and weights come from numpy's Gauss-Legendre
            # routine, so a wrong table entry in the library shows up as a wrong distance
            import itertools

            lib_pts, _ = q.gauss_reference_cell(self.dim, "max")
            n = int(round(len(lib_pts) ** (1.0 / self.dim)))
            x1, w1 = np.polynomial.legendre.leggauss(n)
            x1, w1 = 0.5 * (x1 + 1.0), 0.5 * w1
            pts = np.array(list(itertools.product(x1, repeat=self.dim)))
            w = np.array([float(np.prod(c)) for c in itertools.product(w1, repeat=self.dim)])
        elif l1_mode_name == "CONSTANT_SUBCELL_PROJECTION":
            # documented as the projection onto constants on the 2^dim subcells = corner
            # rule with equal weights: part of the definition, written out independently
            import itertools

            pts = np.array(list(itertools.product((0.0, 1.0), repeat=self.dim)))
            w = np.full(len(pts), 0.5**self.dim)
        else:
            # documented as the cell-wise L2 projection onto constants = midpoint rule
            pts, w = np.full((1, self.dim), 0.5), np.array([1.0])
        pts = np.asarray(pts, dtype=float).reshape(len(w), -1)
        return pts, np.asarray(w, dtype=float)

    def density(self, flux, l1_mode_name, cell_w=None):
        """flat transport density per cell: sum_q w_q |cell_weight * RT0(flux)(x_q)|"""
        pts, w = self.rule(l1_mode_name)
        dens = np.zeros(self.nc)
        cw = None if cell_w is None else self.flat(cell_w)
        for p, wq in zip(pts, w):
            v = self.rt0(flux, p)
            if cw is not None:
                v = v * cw[:, None]
            dens += wq * np.sqrt(np.sum(v * v, axis=1))
        return dens

    def cost(self, flux, l1_mode_name, cell_w=None):
        return float(self.vol * np.sum(self.density(flux, l1_mode_name, cell_w)))

    def first_moment_bound(self, m1, m2):
        """| sum_c x_c (m2-m1)_c vol | with cell centres in physical units (matrix axes)."""
        diff = self.flat(np.asarray(m2) - np.asarray(m1))
        centres = (self.pos + 0.5) * self.vs
        mom = (centres * (diff * self.vol)[:, None]).sum(axis=0)
        return float(np.linalg.norm(mom))

    def unique_flux_thin(self, m1, m2):
        """On a grid whose cells form a path (at most one axis with extent > 1) the
        mass-conserving flux is unique: cumulative sums."""
        big = [d for d in range(self.dim) if self.shape[d] > 1]
        assert len(big) <= 1
        flux = np.zeros(self.nf)
        if not big:
            return flux
        d = big[0]
        diff = self.flat(np.asarray(m2) - np.asarray(m1)) * self.vol
        # order the cells along the path
        order = np.argsort(self.pos[:, d])
        acc = 0.0
        for k in range(self.shape[d] - 1):
            c = order[k]
            acc += diff[c]
            f = self.rc[d, c, 1]
            # outflow of the lower cells through face f equals their net source deficit:
            # div u = vol*(m2-m1)  ->  area * u_f = sum_{cells <= k} vol*(m2-m1)
            flux[f] = acc / self.area[d]
        return flux


# --------------------------------------------------------------- running the solver
def option_enum(name, value):
    import darsia.measure.wasserstein as W

    return getattr(getattr(W, name), value)


def build_options(o):
    """JSON option descriptor -> darsia options dict."""
    opts = {}
    for k, v in o.items():
        if k == "l1_mode":
            opts[k] = option_enum("L1Mode", v)
        elif k == "mobility_mode":
            opts[k] = option_enum("MobilityMode", v)
        elif k == "bregman_update_every":
            opts["bregman_update"] = (lambda it, every=v: it % every == 0) if v else (lambda it: False)
        else:
            opts[k] = v
    return opts


class Run:
    pass


def run_solver(method, shape, vs, m1, m2, o, weight=None, fault_at=None, sched=None, then=None, then_fault_at=None, img_dtype=None):
    """Execute the real solver once.

    fault_at: 1-based index of the in-loop linear_solve call (= iteration index + 1) that raises once.
    sched:    mc.fault.Scheduler; every in-loop linear_solve call is a choice point
              {0: real answer, 1: raise} (used instead of fault_at).
    then:     a second pair computed on the SAME solver object afterwards (-> res.second);
    then_fault_at: in-loop linear_solve call of that second computation that raises once.
    """
    import darsia
    import darsia.measure.wasserstein as W

    grid = make_grid(shape, vs)
    img1, img2 = make_image(m1, vs, img_dtype), make_image(m2, vs, img_dtype)
    wimg = None if weight is None else make_image(np.full(tuple(shape), float(weight)), vs)
    opts = build_options(o)
    opts.setdefault("return_info", True)
    cls = {"newton": W.WassersteinDistanceNewton, "bregman": W.WassersteinDistanceBregman}[method]
    res = Run()
    res.exc = None
    res.calls = 0
    res.faulted_at = None
    res.fault_kind = None
    res.captured = None
    try:
        obj = cls(grid, wimg, opts)
    except Exception as e:  # noqa: BLE001
        res.exc = e
        res.stage = "construct"
        return res
    res.obj = obj
    orig_ls = obj.linear_solve
    orig_solve = obj._solve
    state = {"in_solve": False, "loop_calls": None, "fault_at": fault_at, "sched": sched}

    def ls(*a, **k):
        idx = res.calls
        res.calls += 1
        # in-loop calls: every call after the initial Darcy solve, except Bregman's final
        # pressure solve (the only later call that passes a previous solution positionally)
        in_loop = idx >= 1 and (method == "newton" or len(a) == 2)
        if in_loop:
            res.loop_calls += 1
        if state["fault_at"] is not None and in_loop and res.loop_calls == state["fault_at"]:
            res.faulted_at = res.loop_calls
            raise FAULT_KINDS[state["fault_at"] % len(FAULT_KINDS)](f"injected failure of the linear solve of iteration {res.loop_calls - 1}")
        if state["sched"] is not None and in_loop:
            c = state["sched"].choose(1 + len(FAULT_KINDS))
            if c:
                res.faulted_at = res.loop_calls
                res.fault_kind = FAULT_KINDS[c - 1].__name__
                raise FAULT_KINDS[c - 1](f"injected failure of the linear solve of iteration {res.loop_calls - 1}")
        # conditioning of the system handed to the solver (flux-block diagonal = face weights)
        try:
            d = np.abs(a[0].diagonal()[: grid.num_faces])
            if d.size:
                res.weight_ratio = max(res.weight_ratio, float(d.max() / max(d.min(), 1e-300)))
        except Exception:  # noqa: BLE001
            pass
        out = orig_ls(*a, **k)
        if idx == 0:
            res.initial_solution = np.array(out[0], dtype=float)
        # magnitude of the terms of this linear system: |A||x| and |b| (backward-error scale)
        try:
            x = np.asarray(out[0], dtype=float)
            b = np.asarray(a[1], dtype=float)
            mag = max(float(np.max(np.abs(b))) if b.size else 0.0, float(np.max(abs(a[0]).dot(np.abs(x)))) if x.size else 0.0)
            if np.isfinite(mag):
                res.system_scale = max(res.system_scale, mag) if in_loop or idx == 0 else res.system_scale
                res.last_system_scale = mag
        except Exception:  # noqa: BLE001
            pass
        return out

    def solve(rhs):
        out = orig_solve(rhs)
        res.captured = out
        return out

    res.loop_calls = 0
    res.weight_ratio = 1.0
    res.system_scale = 0.0
    res.last_system_scale = 0.0
    res.initial_solution = None
    obj.linear_solve = ls
    obj._solve = solve
    try:
        ret = obj(img1, img2)
        res.ret = ret
    except Exception as e:  # noqa: BLE001
        res.exc = e
        res.stage = "call"
        return res
    res.grid = grid
    if opts.get("return_info"):
        res.distance, res.info = ret
    elif opts.get("return_status"):
        res.distance, res.status = ret
    else:
        res.distance = ret
    if res.captured is not None:
        res.solution = np.asarray(res.captured[1], dtype=float)
        res.flux = res.solution[: grid.num_faces]
        res.pressure = res.solution[grid.num_faces : grid.num_faces + grid.num_cells]
        res.raw_info = res.captured[2]
    # a second computation on the SAME solver object (another pair of masses)
    res.second = None
    if then is not None and opts.get("return_info"):
        sec = Run()
        sec.exc, sec.obj, sec.grid = None, obj, grid
        sec.weight_ratio, sec.system_scale, sec.initial_solution = 1.0, 0.0, None
        first_ratio, first_scale, first_captured = res.weight_ratio, res.system_scale, res.captured
        res.weight_ratio, res.system_scale = 1.0, 0.0
        res.captured = None
        first_counts = (res.calls, res.loop_calls, res.faulted_at, res.initial_solution)
        res.calls, res.loop_calls, res.faulted_at = 0, 0, None
        state["fault_at"], state["sched"] = then_fault_at, None
        try:
            sec.distance, sec.info = obj(make_image(then[0], vs), make_image(then[1], vs))
            sec.loop_calls, sec.faulted_at = res.loop_calls, res.faulted_at
            sec.captured = res.captured
            sec.solution = np.asarray(sec.captured[1], dtype=float)
            sec.flux = sec.solution[: grid.num_faces]
            sec.pressure = sec.solution[grid.num_faces : grid.num_faces + grid.num_cells]
            sec.weight_ratio, sec.system_scale = res.weight_ratio, res.system_scale
        except Exception as e:  # noqa: BLE001
            sec.exc = e
        res.weight_ratio, res.system_scale, res.captured = first_ratio, first_scale, first_captured
        res.calls, res.loop_calls, res.faulted_at, res.initial_solution = first_counts
        res.second = sec
    return res


L1_MODES = ["RAVIART_THOMAS", "CONSTANT_SUBCELL_PROJECTION", "CONSTANT_CELL_PROJECTION"]
MOBILITY_MODES = ["CELL_BASED", "CELL_BASED_ARITHMETIC", "CELL_BASED_HARMONIC", "SUBCELL_BASED", "FACE_BASED"]
