"""C05 — computed Wasserstein distances behave like an optimal-transport cost (E-lattice).

Clauses: identity, symmetry, scaling (masses / constant weight), first-moment bound,
unique-flux cost on 1-D and one-cell-thin grids, certified lower bound by the discrete
minimum (Kelley cutting planes over the cycle space), dispatch of the unified front-end,
and the OpenCV earth-mover back-end.  Everything is enumerated over explicit finite
alphabets; nothing is sampled.
"""

from __future__ import annotations

import itertools

import numpy as np

from . import _wass as Wh
from . import c04

ID = "C05"
LEVEL = "exploration"
EXHAUSTIVE = True
RULE = (
    "metric laws: grids {(2),(3),(6),(2,2),(2,3),(3,3),(3,4),(2,2,2)} x voxel sizes {unit, dyadic anisotropic} x mass pairs (ALL ordered pairs of "
    "compositions of 2 quanta on grids <= 6 cells; single-cell moves and two-blob pairs elsewhere) x {Newton, Bregman} x L1/mobility modes x "
    "scalings {0.25,2,3,10} x constant weights {0.5,2,3}; thin grids: all 1-D grids with n in {2,3,5,8,13,21,40} and n x 1, 1 x n, n x 1 x 1, 1 x n x 1, 1 x 1 x n up to 13 "
    "x every method x every L1 x mobility mode x num_iter {1,2,6} x formulation {full, pressure}; discrete minimum: grids with <= 5 independent cycles "
    "x 3 L1 modes; dispatch: 3 methods; EMD: ALL ordered single-cell moves on 3x4 and 2x5 x 3 voxel-size pairs + quanta alphabet laws. "
    "Non-trivial = pair with source != destination; distinct = distinct (grid, masses, options)."
)
ASSUMPTIONS = [
    "scaling of Bregman runs is asserted only with L scaled along (iterates at fixed L are legitimately not equivariant)",
    "Kelley lower bound: minimiser assumed inside the box |cycle coefficient| <= 10 x total mass / min face area (checked a posteriori)",
    "EMD compared at float32 tolerance 1e-5 relative",
]

THIN_1D = {"quick": [2, 3, 5, 8, 13], "thorough": [2, 3, 5, 8, 13, 21, 40]}
THIN_N = {"quick": [2, 5, 13], "thorough": [2, 3, 5, 8, 13]}


def describe(tier):
    return {"thin_1d": THIN_1D[tier], "thin_n": THIN_N[tier], "scalings": [0.25, 2, 3, 10], "weights": [0.5, 2, 3]}


def quanta_pairs(shape, q=2):
    n = int(np.prod(shape))
    comps = [np.array(c, dtype=float).reshape(shape) for c in Wh.compositions(q, n)]
    return [(a, b) for a in comps for b in comps]


def cases(tier):
    out = []
    # --- metric laws
    for shape in [(2,), (3,), (6,), (2, 2), (2, 3), (3, 3), (3, 4), (2, 2, 2)]:
        for vsk in ("unit", "aniso"):
            for method in ("newton", "bregman"):
                out.append({"kind": "laws", "shape": list(shape), "vs": vsk, "method": method, "allpairs_max_cells": 4 if tier == "quick" else 6})
    # --- thin grids
    thin = [(n,) for n in THIN_1D[tier]]
    for n in THIN_N[tier]:
        thin += [(n, 1), (1, n), (n, 1, 1), (1, n, 1), (1, 1, n)]
    for shape in thin:
        for method in c04.METHODS:
            # "scalar": one float for all axes (darsia.Grid(shape, 0.5)), on the multi-axis thin grids
            for vsk in (("aniso",) if tier == "quick" else ("unit", "aniso")) + (("scalar",) if len(shape) > 1 else ()):
                for form in ("full", "pressure"):
                    out.append({"kind": "thin", "shape": list(shape), "method": method, "vs": vsk, "form": form, "num_iters": [1, 6] if tier == "quick" else [1, 2, 6]})
    # --- discrete minimum
    for shape in [(2, 2), (2, 3), (3, 3), (2, 2, 2)] if tier == "thorough" else [(2, 2), (2, 3), (3, 3)]:
        for l1 in Wh.L1_MODES:
            for mk in ("corner-to-corner", "dense"):
                out.append({"kind": "minimum", "shape": list(shape), "l1": l1, "mass": mk, "num_iters": [2, 6, 60] if tier == "thorough" else [2, 20]})
    out.append({"kind": "dispatch"})
    for shape in [(3, 4), (2, 5)]:
        for vs in ([1.0, 1.0], [0.5, 2.0], [2.0, 0.25]):
            out.append({"kind": "emd", "shape": list(shape), "vs": vs})
    out.sort(key=lambda c: (c["kind"] not in ("dispatch", "emd"), int(np.prod(c.get("shape", [1])))))
    return out


def dist(method, shape, vs, a, b, o, weight=None):
    res = Wh.run_solver(c04.mname(method), shape, vs, a, b, o, weight=weight)
    return res


def run_laws(case, r):
    shape, vsk, method = tuple(case["shape"]), case["vs"], case["method"]
    dim = len(shape)
    n = int(np.prod(shape))
    vs = Wh.voxel_sizes(dim, vsk)
    if n <= case["allpairs_max_cells"]:
        pairs = quanta_pairs(shape)
    else:
        pairs = [Wh.mass_pairs(shape, k) for k in ("corner-to-corner", "corner-to-centre", "dense", "sparse")]
        cells = list(np.ndindex(*shape))
        for c in cells[1:]:
            pairs.append((Wh.single_cell(shape, cells[0]), Wh.single_cell(shape, c)))
    modes = [("RAVIART_THOMAS", "CELL_BASED")]
    # all L1 x mobility modes on the first non-trivial pair only; default mode on all pairs
    ref = None
    first = True
    for a, b in pairs:
        same = np.array_equal(a, b)
        mode_list = list(itertools.product(Wh.L1_MODES, Wh.MOBILITY_MODES)) if (first and not same) else modes
        if not same:
            first = False
        for l1, mob in mode_list:
            o = c04.opts_for(method, l1, mob, ("full", "direct"), 0, 6)
            tag = {"shape": shape, "vs": vsk, "method": method, "l1": l1, "mob": mob, "a": a.ravel().tolist(), "b": b.ravel().tolist()}
            ab = dist(method, shape, vs, a, b, o)
            if ab.exc is not None:
                r.fail(f"C05/usable/{method}", "distance computation completes", exception=repr(ab.exc)[:300], cfg=tag)
                continue
            if ref is None:
                ref = Wh.Ref(ab.grid)
            d = ab.distance
            if same:
                r.check(d == 0.0, f"C05/identity/{method}", "d(m, m) = 0", d=d, cfg=tag)
                continue
            r.nontriv(tag)
            r.outcome((tag, round(float(d), 9)))
            ba = dist(method, shape, vs, b, a, o)
            r.check(ba.exc is None and abs(ba.distance - d) <= 1e-9 * max(1.0, abs(d)), f"C05/symmetry/{method}", "d(a, b) = d(b, a)", d_ab=d, d_ba=None if ba.exc else ba.distance, cfg=tag)
            fm = ref.first_moment_bound(a, b)
            r.check(d >= fm * (1 - 1e-9) - 1e-12, f"C05/first-moment/{method}", "d >= |displacement of the first moment of the mass|", d=d, bound=fm, cfg=tag)
            if (l1, mob) == modes[0]:
                for c in (0.25, 2.0, 3.0, 10.0):
                    oc = dict(o)
                    if c04.mname(method) == "bregman":
                        oc["L"] = c  # the split-Bregman penalty scales with the flux
                    sc = dist(method, shape, vs, c * a, c * b, oc)
                    r.check(sc.exc is None and abs(sc.distance - c * d) <= 1e-8 * max(1.0, abs(c * d)), f"C05/scaling-mass/{method}", "d(c a, c b) = c d(a, b)", c=c, d=d, d_scaled=None if sc.exc else sc.distance, cfg=tag)
                for w in (0.5, 2.0, 3.0):
                    ow = dict(o)
                    if c04.mname(method) == "bregman":
                        ow["L"] = 1.0 / w
                    sw = dist(method, shape, vs, a, b, ow, weight=w)
                    # Bregman with another penalty parameter is another iteration: only the bound is asserted here
                    if c04.mname(method) == "newton":
                        r.check(sw.exc is None and abs(sw.distance - w * d) <= 1e-8 * max(1.0, abs(w * d)), f"C05/scaling-weight/{method}", "a constant cell weight w scales the distance by w", w=w, d=d, d_weighted=None if sw.exc else sw.distance, cfg=tag)
                    else:
                        r.check(sw.exc is None and sw.distance >= w * fm * (1 - 1e-9) - 1e-12, f"C05/scaling-weight/{method}", "with a constant cell weight w the distance is at least w times the first-moment bound", w=w, d_weighted=None if sw.exc else sw.distance, cfg=tag)
            # homogeneity when the iteration is ended by finite RELATIVE tolerances (the stopping test
            # compares with the first residual / increment of THIS run): the scaled problem stops at
            # the scaled iterate, whatever was solved earlier in the process
            if len(mode_list) > 1 and (l1, mob) == modes[0]:
                ot = dict(o, num_iter=60, tol_residual=1e-6, tol_increment=1e-6)
                dt0 = dist(method, shape, vs, a, b, ot)
                for c in (2.0**9, 2.0**-9):
                    oc = dict(ot)
                    if c04.mname(method) == "bregman":
                        oc["L"] = c * ot.get("L", 1.0)
                    sc = dist(method, shape, vs, c * a, c * b, oc)
                    okc = dt0.exc is None and sc.exc is None and abs(sc.distance - c * dt0.distance) <= 1e-8 * abs(c * dt0.distance)
                    r.check(okc, f"C05/scaling-mass/{method}/finite-tolerances", "with finite relative tolerances d(c a, c b) = c d(a, b) (iteration counts are recorded only: a run that stagnates at rounding level may stop earlier or later)", c=c, d=None if dt0.exc else dt0.distance, d_scaled_over_c=None if sc.exc else sc.distance / c, iterations=None if dt0.exc else len(dt0.info["convergence_history"]["distance"]), iterations_scaled=None if sc.exc else len(sc.info["convergence_history"]["distance"]), cfg=tag)
            # homogeneity also for very small masses, in every L1 / mobility mode: regularisation
            # floors are meant to act at rounding level, not at the scale of small data
            if len(mode_list) > 1:
                for k in (20, 30):
                    c = 2.0**-k
                    oc = dict(o)
                    if c04.mname(method) == "bregman":
                        oc["L"] = c
                    sc = dist(method, shape, vs, c * a, c * b, oc)
                    tolh = 1e-8 if c04.mname(method) == "newton" else 1e-6
                    r.check(sc.exc is None and abs(sc.distance - c * d) <= tolh * abs(c * d), f"C05/scaling-mass/{method}/{mob}/tiny", "d(c a, c b) = c d(a, b) for c = 2^-20, 2^-30", c=f"2^-{k}", d=d, d_scaled_over_c=None if sc.exc else sc.distance / c, cfg=tag)
            # constant weight with all other options (also the Bregman penalty) unchanged, in every
            # L1 / mobility mode: the distance is multiplied by the weight
            if len(mode_list) > 1 or (l1, mob) == modes[0]:
                for w in (0.5, 2.0, 3.0) if len(mode_list) > 1 else (4.0,):
                    sw = dist(method, shape, vs, a, b, dict(o), weight=w)
                    r.check(sw.exc is None and abs(sw.distance - w * d) <= 1e-8 * max(1.0, abs(w * d)), f"C05/scaling-weight/{method}/{mob}", "a constant cell weight w (all other options unchanged) scales the distance by w", w=w, d=d, d_weighted=None if sw.exc else sw.distance, cfg=tag)


def run_thin(case, r):
    shape, method, vsk, formname = tuple(case["shape"]), case["method"], case["vs"], case["form"]
    form = (formname, "direct")
    dim = len(shape)
    vs = Wh.voxel_sizes(dim, vsk)
    ref = None
    allmodes = list(itertools.product(Wh.L1_MODES, Wh.MOBILITY_MODES))
    for mk in ("dense", "corner-to-corner", "sparse"):
        a, b = Wh.mass_pairs(shape, mk)
        # every L1 x mobility mode on the dense pair (both flux signs, all cells active); the
        # default mode plus the two unregularised mobility modes on the compactly supported pairs
        modes = allmodes if mk == "dense" else [("RAVIART_THOMAS", "CELL_BASED"), ("CONSTANT_SUBCELL_PROJECTION", "SUBCELL_BASED"), ("CONSTANT_CELL_PROJECTION", "FACE_BASED")]
        for (l1, mob), ni in itertools.product(modes, case["num_iters"]):
            o = c04.opts_for(method, l1, mob, form, 0, ni)
            tag = {"shape": shape, "vs": vsk, "method": method, "l1": l1, "mob": mob, "num_iter": ni, "form": form, "mass": mk}
            res = dist(method, shape, vs, a, b, o)
            if res.exc is not None:
                r.fail(f"C05/usable/{c04.mname(method)}/thin", "distance computation completes on thin grids", exception=repr(res.exc)[:300], cfg=tag)
                continue
            if ref is None:
                ref = Wh.Ref(res.grid)
            u = ref.unique_flux_thin(a, b)
            want = ref.cost(u, l1)
            cond = "ill-conditioned" if res.weight_ratio > 1e8 else "well-conditioned"
            r.check(abs(res.distance - want) <= 1e-8 * max(1.0, abs(want)), f"C05/thin-unique-flux/{c04.mname(method)}/{form[0]}/{cond}", "on 1-D / one-cell-thin grids every method and mobility option returns the cost of the unique mass-conserving flux", d=res.distance, want=want, weight_ratio=res.weight_ratio, cfg=tag)
            r.nontriv(tag)
            r.outcome((tag, round(float(res.distance), 9)))
            # the documented option `regularization` set to a visible value: it steers the mobility of the
            # iteration, not the cost -- the distance is still the cost of the (unique) flux, and d(m, m) = 0
            if mk != "dense" and ni == case["num_iters"][-1] and form[0] == "full" and (l1, mob) == modes[0]:
                for l1r in Wh.L1_MODES:
                    orr = dict(c04.opts_for(method, l1r, "CELL_BASED", form, 0, ni), regularization=2.0**-10)
                    rr = dist(method, shape, vs, a, b, orr)
                    wantr = ref.cost(u, l1r)
                    r.check(rr.exc is None and abs(rr.distance - wantr) <= 1e-8 * max(1.0, abs(wantr)), f"C05/thin-unique-flux/{c04.mname(method)}/regularization-option", "with a visible `regularization` the distance is still the cost of the unique mass-conserving flux", d=None if rr.exc else rr.distance, want=wantr, l1=l1r, cfg=tag)
                    r0 = dist(method, shape, vs, a, a.copy(), orr)
                    r.check(r0.exc is None and r0.distance == 0.0, f"C05/identity/{c04.mname(method)}/regularization-option", "d(m, m) = 0 also with a visible `regularization`", d=None if r0.exc else r0.distance, l1=l1r, cfg=tag)


# ----------------------------------------------------------- discrete minimum (Kelley)
def cost_and_subgradient(ref, u, l1):
    pts, w = ref.rule(l1)
    cost = 0.0
    g = np.zeros(ref.nf)
    for p, wq in zip(pts, w):
        v = ref.rt0(u, p)  # (nc, dim)
        nrm = np.sqrt(np.sum(v * v, axis=1))
        cost += wq * ref.vol * float(np.sum(nrm))
        with np.errstate(all="ignore"):
            dirn = np.where(nrm[:, None] > 0, v / np.where(nrm[:, None] > 0, nrm[:, None], 1.0), 0.0)
        for d in range(ref.dim):
            lo, up = ref.rc[d, :, 0], ref.rc[d, :, 1]
            mlo, mup = lo != -1, up != -1
            np.add.at(g, lo[mlo], wq * ref.vol * (1 - p[d]) * dirn[mlo, d])
            np.add.at(g, up[mup], wq * ref.vol * p[d] * dirn[mup, d])
    return cost, g


def kelley_lower_bound(ref, a, b, l1, max_cuts=600, gap=1e-8):
    import scipy.linalg
    from scipy.optimize import linprog

    D = np.zeros((ref.nc, ref.nf))
    for f in range(ref.nf):
        ar = ref.area[ref.axis_of[f]]
        D[ref.conn[f, 0], f] += ar
        D[ref.conn[f, 1], f] -= ar
    rhs = ref.vol * ref.flat(np.asarray(b) - np.asarray(a))
    u0 = np.linalg.lstsq(D, rhs, rcond=None)[0]
    Z = scipy.linalg.null_space(D)
    k = Z.shape[1]
    if k == 0:
        c, _ = cost_and_subgradient(ref, u0, l1)
        return c, c, 0, True
    total = float(np.sum(np.abs(rhs)))
    box = 10.0 * total / float(np.min(ref.area)) + 1.0
    gam = np.zeros(k)
    A, bb = [], []
    ub_best, lb = np.inf, -np.inf
    gam_best = gam.copy()
    for it in range(max_cuts):
        c, g = cost_and_subgradient(ref, u0 + Z @ gam, l1)
        if c < ub_best:
            ub_best, gam_best = c, gam.copy()
        gz = Z.T @ g
        # t >= c + gz.(gamma - gam)   <=>   gz.gamma - t <= gz.gam - c
        A.append(np.concatenate([gz, [-1.0]]))
        bb.append(float(gz @ gam - c))
        lp = linprog(np.concatenate([np.zeros(k), [1.0]]), A_ub=np.array(A), b_ub=np.array(bb), bounds=[(-box, box)] * k + [(None, None)], method="highs")
        if lp.status != 0:
            break
        lb = max(lb, float(lp.fun))
        gam = lp.x[:k]
        if ub_best - lb <= gap * max(1.0, ub_best):
            break
    inside = bool(np.all(np.abs(gam_best) < 0.99 * box))
    return lb, ub_best, len(A), inside


def run_minimum(case, r):
    shape, l1 = tuple(case["shape"]), case["l1"]
    dim = len(shape)
    vs = Wh.voxel_sizes(dim, "aniso")
    a, b = Wh.mass_pairs(shape, case["mass"])
    ref = Wh.Ref(Wh.make_grid(shape, vs))
    cycles = ref.nf - ref.nc + 1
    lb, ub, cuts, inside = kelley_lower_bound(ref, a, b, l1)
    r.check(inside and ub - lb <= 1e-6 * max(1.0, ub), f"C05/discrete-minimum/reference/{l1}", "reference: cutting planes close the gap inside the box (otherwise the bound is not used)", lb=lb, ub=ub, cuts=cuts, cycles=cycles)
    if not inside:
        return
    for method, mob, ni in itertools.product(("newton", "bregman"), Wh.MOBILITY_MODES, case["num_iters"]):
        o = c04.opts_for(method, l1, mob, ("full", "direct"), 0, ni)
        res = dist(method, shape, vs, a, b, o)
        tag = {"shape": shape, "l1": l1, "method": method, "mob": mob, "num_iter": ni, "cycles": cycles, "mass": case["mass"]}
        if res.exc is not None:
            r.fail(f"C05/usable/{method}", "distance computation completes", exception=repr(res.exc)[:300], cfg=tag)
            continue
        r.check(res.distance >= lb - 1e-7 * max(1.0, ub), f"C05/discrete-minimum/{method}/{l1}", "the computed distance is never smaller than the true minimum of the discrete transport cost", d=res.distance, certified_lower_bound=lb, upper=ub, cfg=tag)
        r.count("gap_to_minimum_below_1pct" if res.distance <= ub * 1.01 else "gap_to_minimum_above_1pct")
        r.nontriv(tag)
        r.outcome((tag, round(float(res.distance), 9)))


def run_dispatch(case, r):
    import darsia
    import darsia.measure.wasserstein as W

    shape, vs = (3, 4), [0.5, 2.0]
    a, b = Wh.mass_pairs(shape, "dense")
    for method in ("newton", "bregman", "cv2.emd"):
        i1, i2 = Wh.make_image(a, vs), Wh.make_image(b, vs)
        if method == "cv2.emd":
            front = darsia.wasserstein_distance(i1, i2, method=method)
            direct = darsia.EMD()(Wh.make_image(a, vs), Wh.make_image(b, vs))
        else:
            o = Wh.build_options({"num_iter": 6, "l1_mode": "CONSTANT_SUBCELL_PROJECTION", "mobility_mode": "FACE_BASED", "formulation": "full"})
            front = darsia.wasserstein_distance(i1, i2, method=method, options=dict(o))
            cls = W.WassersteinDistanceNewton if method == "newton" else W.WassersteinDistanceBregman
            direct = cls(darsia.generate_grid(i1), None, dict(o))(Wh.make_image(a, vs), Wh.make_image(b, vs))
        r.check(front == direct, f"C05/dispatch/{method}", "the unified front-end returns exactly what the back-end it dispatches to returns", front=front, direct=direct)
        if method != "cv2.emd":
            # with a cell weight image (forwarded to the back-end)
            wimg = Wh.make_image(np.full(shape, 2.0), vs)
            frontw = darsia.wasserstein_distance(Wh.make_image(a, vs), Wh.make_image(b, vs), method=method, weight=wimg, options=dict(o))
            directw = cls(darsia.generate_grid(i1), Wh.make_image(np.full(shape, 2.0), vs), dict(o))(Wh.make_image(a, vs), Wh.make_image(b, vs))
            r.check(frontw == directw and frontw != front, f"C05/dispatch/{method}/weighted", "the front-end forwards the cell weight to the back-end", front=frontw, direct=directw, unweighted=front)
        r.nontriv(method)
        # upper-case spelling dispatches alike
        if method != "cv2.emd":
            up = darsia.wasserstein_distance(Wh.make_image(a, vs), Wh.make_image(b, vs), method=method.upper(), options=dict(o))
            r.check(up == direct, f"C05/dispatch/{method}", "method names are case-insensitive")
    try:
        darsia.wasserstein_distance(Wh.make_image(a, vs), Wh.make_image(b, vs), method="sinkhorn")
        r.fail("C05/dispatch/unknown", "an unknown method is refused")
    except NotImplementedError:
        r.ok()


def run_emd(case, r):
    import darsia

    shape, vs = tuple(case["shape"]), list(case["vs"])
    cells = list(np.ndindex(*shape))
    emd = darsia.EMD()
    vol = float(np.prod(vs))
    # non-initial process state: the same pixel shape has been evaluated before with OTHER voxel sizes
    other_vs = [vs[1] * 2.0, vs[0] * 0.5]
    darsia.EMD()(Wh.make_image(Wh.single_cell(shape, cells[0]), other_vs), Wh.make_image(Wh.single_cell(shape, cells[-1]), other_vs))
    for c1, c2 in itertools.product(cells, cells):
        for amount in (1.0, 3.0):
            a, b = Wh.single_cell(shape, c1, amount), Wh.single_cell(shape, c2, amount)
            d = emd(Wh.make_image(a, vs), Wh.make_image(b, vs))
            want = amount * vol * float(np.linalg.norm((np.array(c2) - np.array(c1)) * np.array(vs)))
            r.check(abs(d - want) <= 1e-5 * max(1.0, want), "C05/emd/single-cell-move", "EMD of a single-cell move = mass x Euclidean distance in physical units", src=c1, dst=c2, vs=vs, d=d, want=want)
            if c1 != c2:
                r.nontriv((shape, vs, c1, c2, amount))
    # laws on the quanta alphabet (two quanta on the first six cells)
    sub = cells[:6]
    comps = []
    for comp in Wh.compositions(2, len(sub)):
        m = np.zeros(shape)
        for cnt, c in zip(comp, sub):
            m[c] = cnt
        comps.append(m)
    centres = lambda m: (np.array([[(c[a] + 0.5) * vs[a] for a in range(2)] for c in cells]) * (m.ravel()[:, None] * vol)).sum(axis=0)  # noqa: E731
    from mc.canon import digest

    for a, b in itertools.product(comps, comps):
        # the same Image objects are used for both orders (as distance_matrix or a user
        # comparing both directions would): evaluating a distance must not change them
        ia, ib = Wh.make_image(a, vs), Wh.make_image(b, vs)
        before = digest([ia, ib])
        d = emd(ia, ib)
        d2 = emd(ib, ia)
        r.check(digest([ia, ib]) == before, "C05/emd/arguments-unchanged", "computing the EMD leaves both images unchanged", a=a.ravel().tolist(), b=b.ravel().tolist())
        dfresh = emd(Wh.make_image(a, vs), Wh.make_image(b, vs))
        r.check(dfresh == d, "C05/emd/repeatable", "the EMD of re-used image objects equals that of fresh ones", d=d, d_fresh=dfresh)
        tol = 1e-5 * max(1.0, abs(d))
        r.check(abs(d - d2) <= tol, "C05/emd/symmetry", "EMD(a,b) = EMD(b,a)", d=d, d2=d2)
        d3 = emd(Wh.make_image(3 * a, vs), Wh.make_image(3 * b, vs))
        r.check(abs(d3 - 3 * d) <= 3 * tol, "C05/emd/scaling", "EMD(3a,3b) = 3 EMD(a,b)", d=d, d3=d3)
        fm = float(np.linalg.norm(centres(b) - centres(a)))
        r.check(d >= fm * (1 - 1e-5) - 1e-6, "C05/emd/first-moment", "EMD >= displacement of the first moment", d=d, bound=fm)
        if np.array_equal(a, b):
            r.check(abs(d) <= 1e-6, "C05/emd/identity", "EMD(a,a) = 0", d=d)
    r.outcome((shape, vs))


def run_case(case, r):
    {"laws": run_laws, "thin": run_thin, "minimum": run_minimum, "dispatch": run_dispatch, "emd": run_emd}[case["kind"]](case, r)
