"""C17 — operations that return new objects do not modify their arguments (E-state).

State = a pool of base operands (one image of each kind plus the caller-owned containers
that are handed to constructors, models, geometries ...) and the previous result.  A
transition applies one entry of a fixed registry of call forms to base operands and / or
the previous result.  On EVERY transition

  * every pool object, the previous result and every argument built for the call has the
    same full-content digest (mc.canon.digest) as before the call,
  * numpy's and Python's global RNG states are what they were,
  * for + - * the result equals the same arithmetic on the raw arrays,
  * no exception escapes (guards exclude the documented refusals a priori).

The pool is never copied: a correct library leaves it pristine, which is verified after
each call; after a violation pool and previous result are rebuilt by replaying the
(violation-free) history on a fresh pool.  The check's own reference model is "nothing
changes" plus NumPy arithmetic on copies taken before the call.
"""

from __future__ import annotations

import collections
import copy
import datetime
import pickle
import random as _pyrandom

import numpy as np

from mc.canon import containers_of, digest, shares

ID = "C17"
LEVEL = "model_checking"
EXHAUSTIVE = True
RULE = (
    "pool of base operands (images: scalar float64 x2, coarse ScalarImage, float32 ScalarImage, uint8 scalar, vector, optical RGB uint8 / "
    "BGR uint8 / RGB float64 / HSV uint8, series with times, series with dates, later dated single image, 3-D scalar; thorough adds series-vector, "
    "second 3-D, default-geometry image, uint16 scalar; plus caller-owned lists / arrays / models / geometries) x registry of call forms "
    "(see describe()). 'chain' cases, no de-duplication: every (call form, variable operand) of the initial state, then every chain of "
    "further call forms that bind the previous result (as variable operand, in first or second position, or twice): all chains of "
    "length 2 over the full registry; thorough also all chains of length 3 whose 2nd and 3rd form are in the CORE3 sub-registry. "
    "'fix' cases: breadth-first search from every call form on a root operand over the abstract graph with nodes (kind of the previous "
    "result = class, space_dim, scalar / series flags, dtype, colour space, form of date / time [thorough: with lengths], reference date, "
    "array rank; alias signature = which containers of the result share memory / identity with which pool container) and call forms as "
    "edges, to a fixpoint: every (node, call form enabled on SOME reached member of the node) pair is executed at least once on the real "
    "objects, a reached concrete state being extended by exactly the forms not yet executed on its node (enabledness is evaluated per "
    "concrete state, so extents / dimensions / data never hide a form). Guards keep the graph finite: extents 1..8, voxel size >= 1/4 for "
    "refinement, at most 4 time steps. Quick: 8 root operands, registry without the variants listed in FIX_SKIP_QUICK; thorough: every "
    "pool image and array as root, full registry. Call forms that bind only pool operands are not repeated at depth >= 2 (same call on "
    "the same verified-pristine pool). Non-trivial = transition in which the call returned; distinct = distinct (call form, kind and "
    "alias signature of the variable operand)."
)
ASSUMPTIONS = [
    "all data dyadic; float image data in [0, 1) (one operand in [-2, 2)); img_as_* other than the uint8 target is skipped when an operand left [-1, 1] (skimage refuses it)",
    "guards exclude documented refusals a priori (3-D resize / EMD / superposition, non-scalar superposition, superposition of converted images "
    "(original_dtype != dtype), ill-ordered or partly missing dates in stack, colour conversions OpenCV does not define, cv2 dtypes, reduction / "
    "extrusion of OpticalImage (2-D by construction), negative or unequal masses in EMD, odd extents for halving)",
    "soundness of the abstraction in 'fix' cases: which containers a call form writes to depends on the kind and alias signature of its "
    "operands and on which forms are enabled, not on pixel values, extents or dimension values",
    "full content is compared through pickles (equal pickles of the same live object = equal content); unequal pickles are confirmed with "
    "the canonical digest mc.canon.digest before a violation is reported",
    "receivers that are not images (Geometry, Resize, EMD, models, ConcentrationAnalysis) are compared without their 'cached_*' attributes: "
    "their caches are hidden state (C03 / C16), not arguments",
    "reset_origin(return_image=True) is documented as an in-place reset that additionally returns a copy: only attributes other than "
    "'origin' of the receiver are required to be unchanged",
    "results that are not extended: non-image / non-array results, ScalarImages whose array rank contradicts their flags (comparison of "
    "non-scalar images), optical images in a colour space the OpticalImage constructor refuses (HLS, LAB)",
    "a transition that violated is not extended (its pool is no longer the base pool); every other transition starts from a pool whose "
    "content equals the pristine one",
]

D0 = datetime.datetime(2023, 5, 1, 12, 0, 0)
DEPTH = {"quick": 2, "thorough": 3}
FIX_CAP = {"quick": 1500, "thorough": 4000}
# Chains of length 3 (thorough) use this sub-registry for their 2nd and 3rd call form: one form per way a result can share
# containers with its operands or an operand can be written to.
CORE3 = (
    "add/x,x", "add/P,x", "mul/float", "lt/x,float", "astype/float32", "astype/Image", "copy", "time_slice/first", "time_interval/0:2",
    "subregion/slices", "reset_origin/return_image", "ctor/rewrap-metadata", "ctor/rewrap-metadata+height", "ctor/from-array", "weight/float",
    "weight/x,x", "weight/other-resolution,x", "superpose/x,x", "stack/x,x", "stack/P,x", "resize/half", "uniform_refinement/+1",
    "reduce_axis/int,sum", "extrude_along_axis", "zeros_like/shape", "model/ClipModel/image", "model/ScalingModel(1)/image",
    "model/ScalingModel(1)/array", "Geometry.normalize/x,x", "to_trichromatic/BGR", "to_monochromatic/red", "EMD/preprocess,P,x",
)
FIX_ROOTS_QUICK = ["S2", "U8", "V2", "O8", "T2", "S3", "ARR", None]

# -----------------------------------------------------------------------------------
# pool


def _data(shape, dtype=float, rot=0):
    n = int(np.prod(shape))
    if np.dtype(dtype).kind == "f":
        a = ((np.arange(n) * 5 + rot) % 16) / 16.0
    else:
        a = (np.arange(n) * 7 + rot * 3) % 200 + 10
    return a.reshape(shape).astype(dtype)


IMG_NAMES_QUICK = ["S2", "S2b", "LO", "SI", "U8", "V2", "O8", "OB", "OF", "OH", "T2", "TD", "D1", "S3", "ODD", "WIDE"]
IMG_NAMES_THOROUGH = IMG_NAMES_QUICK + ["TV", "S3b", "SD", "U16"]
ARR_NAMES = ["ARR", "ARRT", "ARR8"]


def make_pool(tier):
    import darsia

    g2 = lambda: {"dimensions": [2.0, 2.0], "origin": [3.0, -2.0]}  # noqa: E731
    p = collections.OrderedDict()
    p["S2"] = darsia.Image(_data((4, 4)), scalar=True, name="S2", **g2())
    p["S2b"] = darsia.Image(_data((4, 4))[::-1, ::-1].copy(), scalar=True, name="S2b", **g2())
    p["LO"] = darsia.ScalarImage(_data((2, 2), rot=3), name="LO", **g2())
    p["SI"] = darsia.ScalarImage(_data((4, 4), np.float32, rot=1), name="SI", **g2())
    p["U8"] = darsia.Image(_data((4, 4), np.uint8), scalar=True, name="U8", **g2())
    p["V2"] = darsia.Image(_data((4, 4, 2), rot=2), scalar=False, name="V2", **g2())
    p["O8"] = darsia.OpticalImage(_data((4, 4, 3), np.uint8), color_space="RGB", name="O8", **g2())
    p["OB"] = darsia.OpticalImage(_data((4, 4, 3), np.uint8, rot=1), color_space="BGR", name="OB", **g2())
    p["OF"] = darsia.OpticalImage(_data((4, 4, 3), rot=5), color_space="RGB", name="OF", **g2())
    p["OH"] = darsia.OpticalImage(_data((4, 4, 3), np.uint8, rot=2) % 180, color_space="HSV", name="OH", **g2())
    p["T2"] = darsia.Image(_data((4, 4, 3), rot=4), scalar=True, series=True, time=[0.0, 2.5, 7.0], name="T2", **g2())
    p["TD"] = darsia.Image(
        _data((4, 4, 2), rot=6), scalar=True, series=True, date=[D0, D0 + datetime.timedelta(hours=1)],
        reference_date=D0 - datetime.timedelta(hours=1), name="TD", **g2(),
    )
    p["D1"] = darsia.Image(_data((4, 4), rot=7), scalar=True, date=D0 + datetime.timedelta(hours=5), reference_date=D0, name="D1", **g2())
    p["S3"] = darsia.Image(_data((2, 4, 4), rot=8), scalar=True, space_dim=3, dimensions=[1.0, 2.0, 2.0], origin=[3.0, -2.0, 5.0], name="S3")
    # odd extents on both axes (branches taken only for odd extents, e.g. coarsening)
    p["ODD"] = darsia.Image(_data((3, 5), rot=5), scalar=True, name="ODD", dimensions=[1.5, 2.5], origin=[3.0, -2.0])
    # float data reaching outside [-1, 1] (physical data rather than intensities)
    p["WIDE"] = darsia.Image(4.0 * _data((4, 4), rot=3) - 2.0, scalar=True, name="WIDE", **g2())
    if tier == "thorough":
        p["TV"] = darsia.Image(_data((4, 4, 2, 2), rot=9), scalar=False, series=True, time=[1.0, 3.0], name="TV", **g2())
        p["S3b"] = darsia.Image(_data((2, 4, 4), rot=10)[::-1].copy(), scalar=True, space_dim=3, dimensions=[1.0, 2.0, 2.0], origin=[3.0, -2.0, 5.0], name="S3b")
        p["SD"] = darsia.Image(_data((4, 4), rot=11), scalar=True, name="SD")
        p["U16"] = darsia.Image(_data((4, 4), np.uint16, rot=12), scalar=True, name="U16", **g2())
    # caller-owned containers
    p["DIMS"] = [2.0, 2.0]
    p["DIMS3"] = [1.0, 2.0, 2.0]
    p["ORG"] = np.array([3.0, -2.0])
    p["ORGL"] = [3.0, -2.0]
    p["DATES"] = [D0, D0 + datetime.timedelta(hours=1), D0 + datetime.timedelta(hours=3)]
    p["TIMES"] = [0.0, 2.5, 7.0]
    p["ARR"] = _data((4, 4), rot=13)
    p["ARRT"] = _data((4, 4, 3), rot=14)
    p["ARR3"] = _data((2, 4, 4), rot=15)
    p["ARR8"] = _data((4, 4, 3), np.uint8, rot=4)
    p["VOX"] = darsia.make_voxel(np.array([[1, 0], [2, 3], [0, 2]]))
    p["MAXSZ"] = [4, 4]
    p["MASK"] = np.ones((6, 6), dtype=bool)
    p["NPATCH"] = [2, 2]
    p["GDIMS"] = [2.0, 2.0]
    p["GEO"] = darsia.Geometry(space_dim=2, num_voxels=[4, 4], dimensions=p["GDIMS"])
    p["WGEO"] = darsia.WeightedGeometry(_data((4, 4), rot=2) + 0.5, space_dim=2, num_voxels=[4, 4], voxel_size=[0.5, 0.5])
    p["LIN"] = darsia.LinearModel(scaling=2.0, offset=0.25)
    p["SCA1"] = darsia.ScalingModel(scaling=1.0)
    p["SCA2"] = darsia.ScalingModel(scaling=2.0)
    p["CLIP"] = darsia.ClipModel(**{"min value": 0.25, "max value": 0.5})
    p["THR"] = darsia.StaticThresholdModel(0.25, 0.75)
    # data with missing values (NaN voxels), as an array, an image and a sub-image view of a larger image
    nan_arr = _data((4, 4), rot=7).copy()
    nan_arr[1, 2] = np.nan
    nan_arr[3, 0] = np.nan
    nan_arr[0, 0] = np.inf
    nan_arr[2, 3] = -np.inf
    p["NANARR"] = nan_arr
    p["NANIMG"] = darsia.Image(nan_arr.copy(), scalar=True, name="NANIMG", **g2())
    # label-wise threshold bounds handed over as float64 arrays, a two-label map and a bimodal signal
    p["THRLO"] = np.array([0.0, 0.1])
    p["THRHI"] = np.array([1.0, 0.9])
    p["THRLOL"] = [0.0, 0.1]
    lab2 = np.zeros((12, 16), dtype=int)
    lab2[:, 8:] = 1
    p["LAB2"] = lab2
    ii, jj = np.indices((12, 16))
    p["BIMODAL"] = np.where((3 * ii + 5 * jj) % 7 < 3, 0.2, 0.7) + 0.03 * (((7 * ii + 11 * jj) % 13) / 13.0 - 0.5)
    p["MASK2"] = np.arange(12 * 16).reshape(12, 16) >= 32
    p["COMBI"] = darsia.CombinedModel([darsia.ClipModel(**{"min value": 0.25, "max value": 0.75}), darsia.ScalingModel(scaling=4.0)])
    p["COMBA"] = darsia.CombinedModel([darsia.LinearModel(scaling=0.5, offset=1.0), darsia.ClipModel(**{"min value": 1.0, "max value": 1.25})])
    p["RSZ"] = darsia.Resize(fx=0.5, fy=0.5, interpolation="inter_area", **{"resize conservative": True})
    p["RSZ32"] = darsia.Resize(shape=(2, 2), interpolation="inter_nearest", dtype=np.float32)
    p["EMD"] = darsia.EMD()
    p["EMDP"] = darsia.EMD(preprocess=_inplace_preprocess)
    p["CA"] = darsia.ConcentrationAnalysis(base=darsia.Image(_data((4, 4), rot=9), scalar=True, **g2()), model=darsia.ScalingModel(scaling=2.0))
    p["WOPT"] = {"num_iter": 4}
    p["WIMG"] = darsia.ScalarImage(_data((4, 4), rot=6) + 0.5, name="WIMG", **g2())
    return p


def _inplace_preprocess(img):
    """A preprocessing routine that works in place on what it is given (EMD hands it a copy)."""
    img.img *= 2.0
    img.img[0, 0] += 0.0
    return img


# -----------------------------------------------------------------------------------
# kinds, digests, alias signatures

K = collections.namedtuple("K", "what cls sd scalar series shape dt dims origin cs datef timef nt refd")


def _form(v):
    if v is None:
        return "N"
    if isinstance(v, list):
        return ("L", len(v), any(e is None for e in v))
    return "S"


_FC = {}


def feat(x):
    """Kind of x, memoised per live object (the cache is dropped whenever the world is rebuilt)."""
    e = _FC.get(id(x))
    if e is not None and e[0] is x:
        return e[1]
    k = _feat_raw(x)
    if x is not None:
        _FC[id(x)] = (x, k)
    return k


def _feat_raw(x):
    import darsia

    if isinstance(x, darsia.Image):
        try:
            dims = tuple(float(d) for d in x.dimensions)
        except Exception:
            dims = ("?",)
        return K("img", type(x).__name__, int(x.space_dim), bool(x.scalar), bool(x.series), tuple(x.img.shape), str(x.img.dtype), dims,
                 tuple(float(o) for o in np.asarray(x.origin).ravel()), getattr(x, "color_space", None), _form(x.date), _form(x.time), int(x.time_num),
                 x.reference_date is not None)
    if isinstance(x, np.ndarray):
        return K("arr", type(x).__name__, x.ndim, None, None, tuple(x.shape), str(x.dtype), None, None, None, None, None, 0, None)
    if x is None:
        return K("none", "", 0, None, None, (), "", None, None, None, None, None, 0, None)
    return K("other", type(x).__name__, 0, None, None, (), "", None, None, None, None, None, 0, None)


def klass(k):
    """A-priori input class of the variable operand (used in cell names)."""
    if k.what != "img":
        return k.what
    if k.cls == "OpticalImage":
        return "optical"
    if k.series:
        return "series" if k.scalar else "series-vector"
    if not k.scalar:
        return "vector"
    if k.sd != 2:
        return f"{k.sd}d"
    return "scalar"


def dtclass(k):
    return "float-image" if np.dtype(k.dt).kind == "f" else ("bool-image" if np.dtype(k.dt).kind == "b" else "int-image")


def _dig(obj, ignore=()):
    import darsia

    if isinstance(obj, darsia.Image):
        if ignore:
            return digest({a: v for a, v in vars(obj).items() if a not in ignore})
        return digest(obj)
    d = getattr(obj, "__dict__", None)
    if d is not None and not isinstance(obj, np.ndarray):
        return digest([type(obj).__name__, {a: v for a, v in d.items() if not a.startswith("cached_") and a not in ignore}])
    return digest(obj)


def _view(obj, ignore=()):
    import darsia

    if isinstance(obj, darsia.Image):
        return {a: v for a, v in vars(obj).items() if a not in ignore} if ignore else obj
    d = getattr(obj, "__dict__", None)
    if d is not None and not isinstance(obj, np.ndarray):
        return [type(obj).__name__, {a: v for a, v in d.items() if not a.startswith("cached_") and a not in ignore}]
    return obj


def _sig(obj, ignore=()):
    """Fast full-content signature: the pickle of the object (C speed).  Equal pickles of the same live object imply equal
    content; unequal pickles are confirmed with the canonical digest (see _changed)."""
    try:
        return pickle.dumps(_view(obj, ignore), protocol=5)
    except Exception:  # noqa: BLE001 - not picklable: canonical digest
        return _dig(obj, ignore)


def _changed(obj, ignore, before):
    now = _sig(obj, ignore)
    if now == before:
        return False
    if isinstance(before, bytes) and isinstance(now, bytes):
        # pickles may differ for equal content (memoised references): decide with the canonical digest
        return digest(pickle.loads(before)) != digest(_view(obj, ignore))
    return True


def _reach_ids(obj, out=None, depth=0):
    """ids of every object reachable from obj (lists, tuples, dicts, arrays, instances)."""
    if out is None:
        out = set()
    if id(obj) in out or depth > 8 or isinstance(obj, (str, bytes, int, float, bool, type(None))):
        return out
    out.add(id(obj))
    if isinstance(obj, dict):
        for v in obj.values():
            _reach_ids(v, out, depth + 1)
    elif isinstance(obj, (list, tuple)):
        for v in obj:
            _reach_ids(v, out, depth + 1)
    elif hasattr(obj, "__dict__") and not isinstance(obj, np.ndarray):
        for v in vars(obj).values():
            _reach_ids(v, out, depth + 1)
    return out


def pool_containers(pool):
    out = []
    for n, o in pool.items():
        for path, c in containers_of(o).items():
            out.append((n, path, c))
    return out


def alias_sig(obj, pcont):
    sig = []
    for path, c in containers_of(obj).items():
        for n, q, d in pcont:
            if shares(c, d):
                sig.append((path, n, q))
    return tuple(sorted(sig))


# -----------------------------------------------------------------------------------
# registry of call forms

REG = collections.OrderedDict()


class Ctx:
    """Per-call context: the world (pool + prev) and the registration of arguments."""

    def __init__(self, pool, prev):
        self.pool, self.prev = pool, prev
        self.args = []  # (obj, role, ignore, signature-before)
        self.dry = False
        self.used = False
        self.ref = None  # expected raw array for arithmetic

    def use(self, obj, role, ignore=()):
        if self.dry:
            raise DryStop()
        self.used = True
        self.args.append((obj, role, tuple(ignore), _sig(obj, ignore)))
        return obj

    def __getitem__(self, name):
        return self.pool[name]


def op(name, dom="img", group=None, arith=False):
    """dom: 'img' (variable operand is an Image), 'arr' (ndarray), 'none' (pool operands only)."""

    def deco(f):
        REG[name] = {"name": name, "dom": dom, "fn": f, "group": group or name.split("/")[0], "arith": arith}
        return f

    return deco


class Disabled(Exception):
    """The call form is not enabled for this operand (a-priori guard)."""


class DryStop(Exception):
    """Raised by Ctx.use in a dry run: every guard has passed, the call itself is not made."""


def need(cond):
    if not cond:
        raise Disabled()


def _same_geo(a, b):
    return a.sd == b.sd and a.dims == b.dims and a.origin == b.origin


def partner(c, x, same_dtype=True):
    """First other pool image with the kind of x (same shape, flags, geometry)."""
    import darsia

    kx = feat(x)
    for n, o in c.pool.items():
        if isinstance(o, darsia.Image) and o is not x:
            ko = feat(o)
            if ko.shape == kx.shape and ko.scalar == kx.scalar and ko.series == kx.series and _same_geo(ko, kx) and (ko.dt == kx.dt or not same_dtype) \
                    and (ko.cls == kx.cls):
                return o
    raise Disabled()


def other_res(c, x):
    """First pool image on the same physical domain with another resolution (2-D scalar single)."""
    import darsia

    kx = feat(x)
    for n, o in c.pool.items():
        if isinstance(o, darsia.Image) and o is not x:
            ko = feat(o)
            if ko.sd == 2 and ko.scalar and not ko.series and _same_geo(ko, kx) and ko.shape != kx.shape[:2] and np.dtype(ko.dt).kind == "f":
                return o
    raise Disabled()


def _is_img(k):
    return k.what == "img"


def _cv_dtype(k):
    return k.dt in ("uint8", "uint16", "float32", "float64")


def _floaty(k):
    return np.dtype(k.dt).kind == "f"


def _numeric(k):
    return np.dtype(k.dt).kind in "fiu"


def _max_extent(k):
    return max(k.shape[: k.sd]) if k.sd else 0


def _voxel(k):
    return [k.dims[a] / k.shape[a] for a in range(k.sd)]


# ---- arithmetic ---------------------------------------------------------------------
def _arith2(name, pyop):
    @op(f"{name}/x,P", arith=True, group=name)
    def _a(c, x):
        k = feat(x)
        need(_numeric(k))
        P = partner(c, x)
        c.ref = pyop(x.img.copy(), P.img.copy())
        return pyop(c.use(x, "self"), c.use(P, "other"))

    @op(f"{name}/P,x", arith=True, group=name)
    def _b(c, x):
        k = feat(x)
        need(_numeric(k))
        P = partner(c, x)
        c.ref = pyop(P.img.copy(), x.img.copy())
        return pyop(c.use(P, "self"), c.use(x, "other"))

    @op(f"{name}/x,x", arith=True, group=name)
    def _c(c, x):
        k = feat(x)
        need(_numeric(k))
        c.ref = pyop(x.img.copy(), x.img.copy())
        c.use(x, "self")
        return pyop(x, x)


_arith2("add", lambda a, b: a + b)
_arith2("sub", lambda a, b: a - b)

# (+ the scalars for which a shortcut is tempting: zero in every spelling, and one)
for _nm, _s in (("float", 2.5), ("int", 2), ("npfloat64", np.float64(0.5)), ("bigint", 300), ("negint", -3),
                ("zero-int", 0), ("zero-float", 0.0), ("neg-zero", -0.0), ("false", False), ("one-int", 1), ("one-float", 1.0)):

    def _mk(_nm=_nm, _s=_s):
        @op(f"mul/{_nm}", arith=True, group=f"mul-{_nm}")
        def _m(c, x):
            need(_numeric(feat(x)))
            c.ref = x.img.copy() * _s
            return c.use(x, "self") * _s

        @op(f"rmul/{_nm}", arith=True, group=f"mul-{_nm}")
        def _r(c, x):
            need(_numeric(feat(x)))
            c.ref = _s * x.img.copy()
            return _s * c.use(x, "self")

    _mk()

# ---- comparisons --------------------------------------------------------------------
_CMP = {"lt": lambda a, b: a < b, "gt": lambda a, b: a > b, "eq": lambda a, b: a == b, "le": lambda a, b: a <= b, "ge": lambda a, b: a >= b}
for _nm, _f in _CMP.items():

    def _mk(_nm=_nm, _f=_f):
        @op(f"{_nm}/x,P", group="compare")
        def _a(c, x):
            P = partner(c, x)
            return _f(c.use(x, "self"), c.use(P, "other"))

        @op(f"{_nm}/x,x", group="compare")
        def _b(c, x):
            c.use(x, "self")
            return _f(x, x)

        @op(f"{_nm}/x,float", group="compare")
        def _c(c, x):
            return _f(c.use(x, "self"), 0.5)

        @op(f"{_nm}/x,int", group="compare")
        def _d(c, x):
            return _f(c.use(x, "self"), 1)

    _mk()

# ---- type and colour conversions ------------------------------------------------------
for _nm, _t in (("float32", np.float32), ("float64", np.float64), ("pyfloat", float), ("pyint", int), ("uint8", np.uint8), ("uint16", np.uint16), ("bool", bool)):

    def _mk(_nm=_nm, _t=_t):
        @op(f"astype/{_nm}", group="astype")
        def _a(c, x):
            return c.use(x, "self").astype(_t)

    _mk()


@op("astype/ScalarImage", group="astype-class")
def _astype_scalarimage(c, x):
    import darsia

    need(feat(x).scalar)
    return c.use(x, "self").astype(darsia.ScalarImage)


@op("astype/Image", group="astype-class")
def _astype_image(c, x):
    import darsia

    return c.use(x, "self").astype(darsia.Image)


for _nm, _t in (("pyfloat", float), ("float32", np.float32), ("float64", np.float64), ("uint8", np.uint8), ("uint16", np.uint16), ("bool", bool), ("pyint", int)):

    def _mk(_nm=_nm, _t=_t):
        @op(f"img_as/{_nm}", group="img_as")
        def _a(c, x):
            k = feat(x)
            need(k.dt in ("uint8", "uint16", "float32", "float64", "bool"))
            if _floaty(k) and _t is not np.uint8:  # the uint8 target clips floats to [-1, 1] itself
                need(float(np.max(np.abs(x.img))) <= 1.0 if x.img.size else True)
            return c.use(x, "self").img_as(_t)

    _mk()


@op("copy")
def _copy(c, x):
    return c.use(x, "self").copy()


def _cv_pair(src, dst):
    import cv2

    return src == dst or hasattr(cv2, f"COLOR_{src}2{dst}")


for _cs in ("RGB", "BGR", "HSV", "HLS", "LAB"):

    def _mk(_cs=_cs):
        @op(f"to_trichromatic/{_cs}", group="to_trichromatic")
        def _a(c, x):
            k = feat(x)
            need(k.cls == "OpticalImage" and k.dt in ("uint8", "float32", "float64") and _cv_pair(k.cs, _cs))
            return c.use(x, "self").to_trichromatic(_cs.lower() if _cs == "HSV" else _cs, return_image=True)

    _mk()

for _key in ("gray", "red", "green", "blue", "hue", "saturation", "value"):

    def _mk(_key=_key):
        @op(f"to_monochromatic/{_key}", group="to_monochromatic")
        def _a(c, x):
            k = feat(x)
            need(k.cls == "OpticalImage" and k.dt in ("uint8", "float32", "float64"))
            tgt = "GRAY" if _key == "gray" else ("RGB" if _key in ("red", "green", "blue") else "HSV")
            need(_cv_pair(k.cs, tgt))
            return c.use(x, "self").to_monochromatic(_key)

    _mk()


@op("metadata")
def _metadata(c, x):
    return c.use(x, "self").metadata()


@op("shape_metadata")
def _shape_metadata(c, x):
    return c.use(x, "self").shape_metadata()


# ---- extraction -----------------------------------------------------------------------
@op("time_slice/first", group="time_slice")
def _ts0(c, x):
    need(feat(x).series)
    return c.use(x, "self").time_slice(0)


@op("time_slice/last", group="time_slice")
def _ts1(c, x):
    k = feat(x)
    need(k.series and k.nt >= 2)
    return c.use(x, "self").time_slice(k.nt - 1)


@op("time_interval/0:2", group="time_interval")
def _ti0(c, x):
    k = feat(x)
    need(k.series and k.nt >= 2)
    return c.use(x, "self").time_interval(c.use(slice(0, 2), "indices"))


@op("time_interval/1:", group="time_interval")
def _ti1(c, x):
    k = feat(x)
    need(k.series and k.nt >= 2)
    return c.use(x, "self").time_interval(slice(1, None))


@op("slice/int-axis", group="slice")
def _slice_int(c, x):
    k = feat(x)
    need(k.sd >= 2 and k.cls != "OpticalImage" and _numeric(k))
    return c.use(x, "self").slice(0, k.sd - 1)


@op("slice/cartesian-axis", group="slice")
def _slice_name(c, x):
    k = feat(x)
    need(k.sd >= 2 and k.cls != "OpticalImage" and _numeric(k))
    ctr = np.asarray(x.coordinatesystem.coordinate(np.full(k.sd, 0.5)), dtype=float)
    return c.use(x, "self").slice(float(ctr[0]), "x")


def _half_roi(k):
    need(k.sd >= 1 and all(n >= 2 for n in k.shape[: k.sd]))
    return tuple(slice(0, n // 2) for n in k.shape[: k.sd])


@op("subregion/slices", group="subregion")
def _sub_slices(c, x):
    roi = _half_roi(feat(x))
    return c.use(x, "self").subregion(c.use(roi, "roi"))


@op("subregion/open-slices", group="subregion")
def _sub_open(c, x):
    k = feat(x)
    need(k.sd >= 1 and all(n >= 2 for n in k.shape[: k.sd]))
    roi = tuple(slice(None, None) if a else slice(1, None) for a in range(k.sd))
    return c.use(x, "self").subregion(roi)


@op("subregion/voxels", group="subregion")
def _sub_vox(c, x):
    import darsia

    k = feat(x)
    roi = _half_roi(k)
    V = darsia.make_voxel(np.array([[s.stop for s in roi], [0] * k.sd]))
    return c.use(x, "self").subregion(c.use(V, "roi"))


@op("subregion/coordinates", group="subregion")
def _sub_crd(c, x):
    import darsia

    k = feat(x)
    roi = _half_roi(k)
    cs = x.coordinatesystem
    P = np.asarray(cs.coordinate(np.array([[0.25] * k.sd, [s.stop + 0.25 for s in roi]])), dtype=float)
    C = darsia.make_coordinate(P)
    return c.use(x, "self").subregion(c.use(C, "roi"))


@op("subregion/voxels-outside", group="subregion")
def _sub_vox_out(c, x):
    import darsia

    k = feat(x)
    need(k.sd >= 1 and all(n >= 2 for n in k.shape[: k.sd]))
    V = darsia.make_voxel(np.array([[-1] * k.sd, [n + 2 for n in k.shape[: k.sd]]]))
    return c.use(x, "self").subregion(c.use(V, "roi"))


@op("subregion/coordinates-outside", group="subregion")
def _sub_crd_out(c, x):
    import darsia

    k = feat(x)
    need(k.sd >= 1 and all(n >= 2 for n in k.shape[: k.sd]))
    cs = x.coordinatesystem
    P = np.asarray(cs.coordinate(np.array([[-1.75] * k.sd, [n + 1.25 for n in k.shape[: k.sd]]])), dtype=float)
    C = darsia.make_coordinate(P)
    return c.use(x, "self").subregion(c.use(C, "roi"))


@op("reset_origin/return_image", group="reset_origin")
def _reset_origin(c, x):
    return c.use(x, "self", ignore=("origin",)).reset_origin(return_image=True)


# ---- constructors with caller-owned containers ----------------------------------------
@op("ctor/dimensions+origin-array", dom="none", group="ctor")
def _ctor1(c, x):
    import darsia

    return darsia.Image(c.use(c["ARR"], "img"), dimensions=c.use(c["DIMS"], "dimensions"), origin=c.use(c["ORG"], "origin"), scalar=True)


@op("ctor/origin-list", dom="none", group="ctor")
def _ctor2(c, x):
    import darsia

    return darsia.ScalarImage(c.use(c["ARR"], "img"), dimensions=c.use(c["DIMS"], "dimensions"), origin=c.use(c["ORGL"], "origin"))


@op("ctor/series-dates", dom="none", group="ctor")
def _ctor3(c, x):
    import darsia

    return darsia.Image(c.use(c["ARRT"], "img"), dimensions=c.use(c["DIMS"], "dimensions"), series=True, scalar=True,
                        date=c.use(c["DATES"], "date"), reference_date=D0)


@op("ctor/series-times", dom="none", group="ctor")
def _ctor4(c, x):
    import darsia

    return darsia.Image(c.use(c["ARRT"], "img"), dimensions=c.use(c["DIMS"], "dimensions"), series=True, scalar=True, time=c.use(c["TIMES"], "time"))


@op("ctor/optical", dom="none", group="ctor")
def _ctor5(c, x):
    import darsia

    return darsia.OpticalImage(c.use(c["ARR8"], "img"), dimensions=c.use(c["DIMS"], "dimensions"), color_space="RGB")


@op("ctor/default-geometry", dom="none", group="ctor")
def _ctor6(c, x):
    import darsia

    return darsia.Image(c.use(c["ARR"], "img"), scalar=True)


@op("ctor/height+width", dom="none", group="ctor-height-width-depth")
def _ctor7(c, x):
    import darsia

    return darsia.Image(c.use(c["ARR"], "img"), dimensions=c.use(c["DIMS"], "dimensions"), height=3.0, width=5.0, scalar=True)


@op("ctor/height", dom="none", group="ctor-height-width-depth")
def _ctor8(c, x):
    import darsia

    return darsia.ScalarImage(c.use(c["ARR"], "img"), dimensions=c.use(c["DIMS"], "dimensions"), height=3.0)


@op("ctor/depth", dom="none", group="ctor-height-width-depth")
def _ctor9(c, x):
    import darsia

    return darsia.Image(c.use(c["ARR3"], "img"), dimensions=c.use(c["DIMS3"], "dimensions"), space_dim=3, depth=4.0, scalar=True)


@op("ctor/height-only-keywords", dom="none", group="ctor")
def _ctor10(c, x):
    import darsia

    return darsia.Image(c.use(c["ARR"], "img"), height=3.0, width=5.0, scalar=True)


@op("ctor/from-array", dom="arr", group="ctor")
def _ctor_arr(c, x):
    import darsia

    need(x.ndim == 2 and min(x.shape) >= 1)
    return darsia.Image(c.use(x, "img"), dimensions=c.use(c["DIMS"], "dimensions"), scalar=True)


@op("ctor/rewrap-metadata", group="ctor")
def _rewrap(c, x):
    meta = c.use(x, "source").metadata()
    return type(x)(x.img, **c.use(meta, "metadata"))


@op("ctor/rewrap-metadata+height", group="ctor-height-width-depth")
def _rewrap_h(c, x):
    meta = c.use(x, "source").metadata()
    c.use(meta["dimensions"], "dimensions")
    return type(x)(x.img, **c.use(meta, "metadata"), height=3.0)


# ---- weighting, superposition, stacking -------------------------------------------------
@op("weight/float", group="weight-scalar")
def _w_float(c, x):
    import darsia

    need(_floaty(feat(x)))
    return darsia.weight(c.use(x, "img"), 2.0)


@op("weight/int", group="weight-scalar")
def _w_int(c, x):
    import darsia

    need(_numeric(feat(x)))
    return darsia.weight(c.use(x, "img"), 2)


def _weightable(k):
    need(k.scalar and not k.series and _floaty(k))


@op("weight/x,P", group="weight-image")
def _w_xp(c, x):
    import darsia

    _weightable(feat(x))
    P = partner(c, x)
    return darsia.weight(c.use(x, "img"), c.use(P, "weight"))


@op("weight/P,x", group="weight-image")
def _w_px(c, x):
    import darsia

    _weightable(feat(x))
    P = partner(c, x)
    return darsia.weight(c.use(P, "img"), c.use(x, "weight"))


@op("weight/x,x", group="weight-image")
def _w_xx(c, x):
    import darsia

    _weightable(feat(x))
    c.use(x, "img")
    return darsia.weight(x, x)


@op("weight/x,other-resolution", group="weight-image-other-resolution")
def _w_xq(c, x):
    import darsia

    k = feat(x)
    need(k.sd == 2 and not k.series and _floaty(k) and k.scalar)
    Q = other_res(c, x)
    return darsia.weight(c.use(x, "img"), c.use(Q, "weight"))


@op("weight/other-resolution,x", group="weight-image-other-resolution")
def _w_qx(c, x):
    import darsia

    k = feat(x)
    need(k.sd == 2 and not k.series and _floaty(k) and k.scalar)
    Q = other_res(c, x)
    return darsia.weight(c.use(Q, "img"), c.use(x, "weight"))


@op("weight/channel-array", group="weight-channel-array")
def _w_ch(c, x):
    import darsia

    k = feat(x)
    need(len(k.shape) > k.sd and _floaty(k))
    w = 2.0 ** (np.arange(int(np.prod(k.shape[k.sd:]))) % 3 - 1).reshape(k.shape[k.sd:])
    return darsia.weight(c.use(x, "img"), c.use(w, "weight"))


def _superposable(k):
    need(k.sd == 2 and k.scalar and k.dt in ("uint8", "float32", "float64") and _max_extent(k) <= 8)


def _same_original_dtype(a, b):
    # superpose() allocates with 'original_dtype': a converted image (astype) is outside its documented use
    need(a.original_dtype == b.original_dtype and a.time_num == b.time_num and a.original_dtype == a.img.dtype and b.original_dtype == b.img.dtype)


@op("superpose/x,P", group="superpose")
def _sp_xp(c, x):
    import darsia

    _superposable(feat(x))
    P = partner(c, x)
    _same_original_dtype(x, P)
    return darsia.superpose(c.use([c.use(x, "images[0]"), c.use(P, "images[1]")], "images"))


@op("superpose/P,x", group="superpose")
def _sp_px(c, x):
    import darsia

    _superposable(feat(x))
    P = partner(c, x)
    _same_original_dtype(x, P)
    return darsia.superpose(c.use([c.use(P, "images[0]"), c.use(x, "images[1]")], "images"))


@op("superpose/x,x", group="superpose")
def _sp_xx(c, x):
    import darsia

    _superposable(feat(x))
    _same_original_dtype(x, x)
    c.use(x, "images[0]")
    return darsia.superpose(c.use([x, x], "images"))


@op("superpose/x,other-resolution", group="superpose")
def _sp_xq(c, x):
    import darsia

    k = feat(x)
    _superposable(k)
    need(not k.series and k.dt == "float64")
    Q = other_res(c, x)
    need(feat(Q).dt == "float64" and type(Q) is type(x))
    _same_original_dtype(x, Q)
    return darsia.superpose(c.use([c.use(x, "images[0]"), c.use(Q, "images[1]")], "images"))


def _stackable(a, b):
    ka, kb = feat(a), feat(b)
    need(ka.nt + kb.nt <= 4)
    # dated and undated images are not mixed (a series with partly missing dates has no defined relative time: C02's subject)
    need(a._is_none(a.date) == b._is_none(b.date))
    if ka.datef != "N" and kb.datef != "N" and not a._is_none(a.date) and not b._is_none(b.date):
        last = a.date[-1] if a.series else a.date
        first = b.date[0] if b.series else b.date
        need(last < first)


def _stack_partner(c, x, after):
    """First other pool image that can be stacked after (before) x."""
    import darsia

    kx = feat(x)
    for n, o in c.pool.items():
        if isinstance(o, darsia.Image) and o is not x:
            ko = feat(o)
            if ko.shape[: ko.sd] == kx.shape[: kx.sd] and ko.shape[ko.sd + (1 if ko.series else 0):] == kx.shape[kx.sd + (1 if kx.series else 0):] \
                    and ko.scalar == kx.scalar and _same_geo(ko, kx) and ko.cls == kx.cls and ko.dt == kx.dt:
                try:
                    _stackable(x, o) if after else _stackable(o, x)
                except Disabled:
                    continue
                return o
    raise Disabled()


@op("stack/x,P", group="stack")
def _st_xp(c, x):
    import darsia

    P = _stack_partner(c, x, True)
    return darsia.stack(c.use([c.use(x, "images[0]"), c.use(P, "images[1]")], "images"))


@op("stack/P,x", group="stack")
def _st_px(c, x):
    import darsia

    P = _stack_partner(c, x, False)
    return darsia.stack(c.use([c.use(P, "images[0]"), c.use(x, "images[1]")], "images"))


@op("stack/x,x", group="stack")
def _st_xx(c, x):
    import darsia

    k = feat(x)
    need(k.datef == "N" or x._is_none(x.date))
    need(2 * k.nt <= 4)
    c.use(x, "images[0]")
    return darsia.stack(c.use([x, x], "images"))


@op("stack/x,P,x", group="stack")
def _st_xpx(c, x):
    import darsia

    k = feat(x)
    need(k.datef == "N" or x._is_none(x.date))
    P = _stack_partner(c, x, True)
    need(feat(P).datef == "N" or P._is_none(P.date))
    need(2 * k.nt + feat(P).nt <= 4)
    return darsia.stack(c.use([c.use(x, "images[0]"), c.use(P, "images[1]"), x], "images"))


# ---- resizing ---------------------------------------------------------------------------
def _resizable(k):
    need(k.sd == 2 and _cv_dtype(k) and min(k.shape[:2]) >= 1)


@op("resize/shape", group="resize")
def _rs_shape(c, x):
    import darsia

    _resizable(feat(x))
    return darsia.resize(c.use(x, "image"), shape=c.use((2, 2), "shape"))


@op("resize/ref_image", group="resize")
def _rs_ref(c, x):
    import darsia

    _resizable(feat(x))
    return darsia.resize(c.use(x, "image"), ref_image=c.use(c["LO"], "ref_image"), interpolation="inter_area")


@op("resize/as-ref_image", group="resize")
def _rs_asref(c, x):
    import darsia

    k = feat(x)
    need(k.sd == 2 and _max_extent(k) <= 8 and min(k.shape[:2]) >= 1)
    return darsia.resize(c.use(c["S2"], "image"), ref_image=c.use(x, "ref_image"))


@op("resize/half", group="resize")
def _rs_half(c, x):
    import darsia

    k = feat(x)
    _resizable(k)
    need(all(n % 2 == 0 for n in k.shape[:2]))
    return darsia.resize(c.use(x, "image"), fx=0.5, fy=0.5, interpolation="inter_nearest")


@op("resize/double", group="resize")
def _rs_double(c, x):
    import darsia

    k = feat(x)
    _resizable(k)
    need(_max_extent(k) <= 4 and min(_voxel(k)) >= 0.5)
    return darsia.resize(c.use(x, "image"), fx=2.0, fy=2.0, interpolation="inter_linear")


@op("Resize()/conservative-image", group="Resize-object")
def _rs_obj(c, x):
    k = feat(x)
    _resizable(k)
    need(_floaty(k) and all(n % 2 == 0 for n in k.shape[:2]))
    return c.use(c["RSZ"], "resizer")(c.use(x, "img"))


@op("Resize()/dtype-image", group="Resize-object")
def _rs_obj32(c, x):
    _resizable(feat(x))
    return c.use(c["RSZ32"], "resizer")(c.use(x, "img"))


@op("Resize()/conservative-array", dom="arr", group="Resize-object")
def _rs_arr(c, x):
    k = feat(x)
    need(x.ndim >= 2 and _floaty(k) and all(n % 2 == 0 and n >= 2 for n in x.shape[:2]))
    return c.use(c["RSZ"], "resizer")(c.use(x, "img"))


@op("Resize()/dtype-array", dom="arr", group="Resize-object")
def _rs_arr32(c, x):
    k = feat(x)
    need(x.ndim >= 2 and _cv_dtype(k) and min(x.shape[:2]) >= 1)
    return c.use(c["RSZ32"], "resizer")(c.use(x, "img"))


@op("equalize_voxel_size/default", group="equalize_voxel_size")
def _eq_vox(c, x):
    import darsia

    k = feat(x)
    _resizable(k)
    v = min(_voxel(k))
    need(all(int(d / v) >= 1 and int(d / v) <= 8 for d in k.dims))
    return darsia.equalize_voxel_size(c.use(x, "image"))


@op("equalize_voxel_size/1.0", group="equalize_voxel_size")
def _eq_vox1(c, x):
    import darsia

    k = feat(x)
    _resizable(k)
    need(all(int(d / 1.0) >= 1 and int(d / 1.0) <= 8 for d in k.dims))
    return darsia.equalize_voxel_size(c.use(x, "image"), voxel_size=1.0, interpolation="inter_area")


@op("uniform_refinement/+1", group="uniform_refinement")
def _refine(c, x):
    import darsia

    k = feat(x)
    need(k.sd >= 1 and _max_extent(k) <= 4 and min(_voxel(k)) >= 0.5 and _numeric(k))
    return darsia.uniform_refinement(c.use(x, "image"), 1)


@op("uniform_refinement/-1", group="uniform_refinement")
def _coarsen(c, x):
    import darsia

    k = feat(x)
    need(k.sd >= 1 and _numeric(k))
    return darsia.uniform_refinement(c.use(x, "image"), -1)


# ---- reduction / extrusion ----------------------------------------------------------------
@op("reduce_axis/int,average", group="reduce_axis")
def _red_avg(c, x):
    import darsia

    k = feat(x)
    need(k.sd >= 2 and _numeric(k) and k.cls != "OpticalImage")
    return darsia.reduce_axis(c.use(x, "image"), 0)


@op("reduce_axis/int,sum", group="reduce_axis")
def _red_sum(c, x):
    import darsia

    k = feat(x)
    need(k.sd >= 2 and _numeric(k) and k.cls != "OpticalImage")
    return darsia.reduce_axis(c.use(x, "image"), k.sd - 1, mode="sum")


@op("reduce_axis/cartesian,average", group="reduce_axis")
def _red_name(c, x):
    import darsia

    k = feat(x)
    need(k.sd >= 2 and _numeric(k) and k.cls != "OpticalImage")
    return darsia.reduce_axis(c.use(x, "image"), "xyz"[k.sd - 1], mode="average")


@op("reduce_axis/slice", group="reduce_axis")
def _red_slice(c, x):
    import darsia

    k = feat(x)
    need(k.sd >= 2 and k.cls != "OpticalImage")
    return darsia.reduce_axis(c.use(x, "image"), 1, mode="slice", slice_idx=0)


@op("extrude_along_axis", group="extrude_along_axis")
def _extrude(c, x):
    import darsia

    k = feat(x)
    need(k.sd == 2 and k.cls != "OpticalImage")
    return darsia.extrude_along_axis(c.use(x, "img"), 1.0, 2)


# ---- standard images, boxes ---------------------------------------------------------------
for _fn in ("zeros_like", "ones_like"):

    def _mk(_fn=_fn):
        @op(f"{_fn}/shape", group=_fn)
        def _a(c, x):
            import darsia

            return getattr(darsia, _fn)(c.use(x, "image"))

        @op(f"{_fn}/voxels", group="like-voxels")
        def _b(c, x):
            import darsia

            return getattr(darsia, _fn)(c.use(x, "image"), mode="voxels", dtype=np.uint8)

    _mk()


@op("bounding_box", dom="none")
def _bbox(c, x):
    import darsia

    return darsia.bounding_box(c.use(c["VOX"], "voxels"), padding=1, max_size=c.use(c["MAXSZ"], "max_size"))


@op("bounding_box/no-max", dom="none", group="bounding_box")
def _bbox2(c, x):
    import darsia

    return darsia.bounding_box(c.use(c["VOX"], "voxels"))


@op("random_patches", dom="none")
def _rpatches(c, x):
    import darsia

    return darsia.random_patches(c.use(c["MASK"], "mask"), 2, 3)


@op("random_patches/too-small-mask", dom="none", group="random_patches")
def _rpatches2(c, x):
    import darsia

    return darsia.random_patches(c.use(c["MASK"], "mask"), 6, 3)


# ---- models -------------------------------------------------------------------------------
for _nm, _m in (("LinearModel", "LIN"), ("ScalingModel(2)", "SCA2"), ("ScalingModel(1)", "SCA1"), ("ClipModel", "CLIP"), ("StaticThresholdModel", "THR"),
                ("CombinedModel", "COMBI"), ("CombinedModel(linear)", "COMBA")):

    def _mk(_nm=_nm, _m=_m):
        @op(f"model/{_nm}/image", group=f"model-{_nm}")
        def _a(c, x):
            k = feat(x)
            need(_floaty(k))
            if _m == "THR":
                need(k.scalar and not k.series)
            return c.use(c[_m], "model")(c.use(x, "signal"))

    _mk()

for _nm, _m in (("LinearModel", "LIN"), ("ScalingModel(2)", "SCA2"), ("ScalingModel(1)", "SCA1"), ("ClipModel", "CLIP"), ("StaticThresholdModel", "THR"),
                ("CombinedModel", "COMBA")):

    def _mk(_nm=_nm, _m=_m):
        @op(f"model/{_nm}/array", dom="arr", group=f"model-{_nm}")
        def _a(c, x):
            need(_floaty(feat(x)))
            return c.use(c[_m], "model")(c.use(x, "signal"))

    _mk()


for _meth in ("otsu", "tailored global min", "tailored otsu"):
    for _bounds in ("arrays", "list+array"):
        for _mask in (False, True):

            def _mk(_meth=_meth, _bounds=_bounds, _mask=_mask):
                @op(f"model/DynamicThresholdModel/{_meth}/bounds={_bounds}/mask={_mask}", dom="none", group="model-DynamicThresholdModel")
                def _a(c, x):
                    import darsia

                    lo = c.use(c["THRLO"] if _bounds == "arrays" else c["THRLOL"], "threshold_lower")
                    model = darsia.DynamicThresholdModel(method=_meth, threshold_lower=lo, threshold_upper=c.use(c["THRHI"], "threshold_upper"), labels=c.use(c["LAB2"], "labels"))
                    sig = c.use(c["BIMODAL"], "signal")
                    args = (c.use(c["MASK2"], "mask"),) if _mask else ()
                    first = model(sig, *args)
                    second = model(0.9 * sig, *args)  # a re-used model: the bounds of the first call are still the caller's
                    return [first, second]

            _mk()

# ---- integration ----------------------------------------------------------------------------
@op("Geometry.integrate/own-geometry", group="Geometry.integrate")
def _geo_own(c, x):
    import darsia

    need(_numeric(feat(x)))
    meta = c.use(x, "data").shape_metadata()
    g = darsia.Geometry(**c.use(meta, "shape_metadata"))
    return g.integrate(x)


@op("Geometry.integrate/pool-geometry", group="Geometry.integrate")
def _geo_pool(c, x):
    k = feat(x)
    need(k.sd == 2 and _numeric(k))
    return c.use(c["GEO"], "geometry").integrate(c.use(x, "data"))


@op("WeightedGeometry.integrate", group="Geometry.integrate")
def _wgeo(c, x):
    k = feat(x)
    need(k.sd == 2 and _cv_dtype(k))
    return c.use(c["WGEO"], "geometry").integrate(c.use(x, "data"))


@op("Geometry.integrate/array", dom="arr", group="Geometry.integrate")
def _geo_arr(c, x):
    need(x.ndim >= 2 and _numeric(feat(x)))
    return c.use(c["GEO"], "geometry").integrate(c.use(x, "data"))


@op("WeightedGeometry.integrate/array", dom="arr", group="Geometry.integrate")
def _wgeo_arr(c, x):
    need(x.ndim >= 2 and _cv_dtype(feat(x)))
    return c.use(c["WGEO"], "geometry").integrate(c.use(x, "data"))


@op("Geometry.integrate/nan-array", dom="none", group="Geometry.integrate")
def _geo_nan_arr(c, x):
    return c.use(c["GEO"], "geometry").integrate(c.use(c["NANARR"], "data"))


@op("Geometry.integrate/nan-image", dom="none", group="Geometry.integrate")
def _geo_nan_img(c, x):
    return c.use(c["GEO"], "geometry").integrate(c.use(c["NANIMG"], "data"))


@op("WeightedGeometry.integrate/nan-image", dom="none", group="Geometry.integrate")
def _wgeo_nan_img(c, x):
    return c.use(c["WGEO"], "geometry").integrate(c.use(c["NANIMG"], "data"))


@op("Geometry.integrate/nan-subregion", dom="none", group="Geometry.integrate")
def _geo_nan_sub(c, x):
    import darsia

    sub = c.use(c["NANIMG"], "parent").subregion((slice(0, 2), slice(1, 4)))
    g = darsia.Geometry(**sub.shape_metadata())
    return g.integrate(sub)


@op("Geometry.normalize/nan,nan", dom="none", group="Geometry.normalize")
def _norm_nan(c, x):
    return c.use(c["GEO"], "geometry").normalize(c.use(c["NANIMG"], "img"), c.use(c["NANIMG"], "img_ref"))


@op("Geometry.normalize/x,P", group="Geometry.normalize")
def _norm_xp(c, x):
    k = feat(x)
    need(k.sd == 2 and _floaty(k))
    P = partner(c, x)
    return c.use(c["GEO"], "geometry").normalize(c.use(x, "img"), c.use(P, "img_ref"))


@op("Geometry.normalize/P,x,ratio", group="Geometry.normalize")
def _norm_px(c, x):
    k = feat(x)
    need(k.sd == 2 and _floaty(k))
    P = partner(c, x)
    return c.use(c["WGEO"], "geometry").normalize(c.use(P, "img"), c.use(x, "img_ref"), return_ratio=True)


@op("Geometry.normalize/x,x", group="Geometry.normalize")
def _norm_xx(c, x):
    k = feat(x)
    need(k.sd == 2 and _floaty(k))
    c.use(x, "img")
    return c.use(c["GEO"], "geometry").normalize(x, x)


# ---- distances ------------------------------------------------------------------------------
def _emdable(k):
    need(k.sd == 2 and k.scalar and _floaty(k) and _max_extent(k) <= 8)


def _same_mass(a, b):
    sa, sb = a.img.copy(), b.img.copy()
    for _ in range(2):
        sa, sb = np.sum(sa, axis=0), np.sum(sb, axis=0)
    need(np.all(np.asarray(sa) > 0) and np.allclose(sa, sb, atol=1e-9))
    need(bool(np.all(a.img >= 0)) and bool(np.all(b.img >= 0)))  # cv2.EMD refuses negative weights


@op("EMD/x,P", group="EMD")
def _emd_xp(c, x):
    _emdable(feat(x))
    P = partner(c, x)
    _same_mass(x, P)
    return c.use(c["EMD"], "emd")(c.use(x, "img_1"), c.use(P, "img_2"))


@op("EMD/x,x", group="EMD")
def _emd_xx(c, x):
    _emdable(feat(x))
    _same_mass(x, x)
    c.use(x, "img_1")
    return c.use(c["EMD"], "emd")(x, x)


@op("EMD/preprocess,P,x", group="EMD-preprocess")
def _emd_pre(c, x):
    _emdable(feat(x))
    P = partner(c, x)
    _same_mass(x, P)
    return c.use(c["EMDP"], "emd")(c.use(P, "img_1"), c.use(x, "img_2"))


@op("EMD.distance_matrix", group="EMD")
def _emd_mat(c, x):
    k = feat(x)
    _emdable(k)
    need(not k.series)
    P = partner(c, x)
    _same_mass(x, P)
    return c.use(c["EMD"], "emd").distance_matrix(c.use([c.use(x, "images[0]"), c.use(P, "images[1]"), x], "images"))


@op("EMD.distance_matrix/preprocess", group="EMD-preprocess")
def _emd_mat_pre(c, x):
    k = feat(x)
    _emdable(k)
    need(not k.series)
    P = partner(c, x)
    _same_mass(x, P)
    return c.use(c["EMDP"], "emd").distance_matrix(c.use([c.use(x, "images[0]"), c.use(P, "images[1]"), x], "images"))


def _wdable(k):
    need(k.sd == 2 and k.scalar and not k.series and k.dt == "float64" and _max_extent(k) <= 8 and min(k.shape[:2]) >= 2)


@op("wasserstein_distance/cv2.emd", group="wasserstein_distance-cv2.emd")
def _wd_emd(c, x):
    import darsia

    _wdable(feat(x))
    P = partner(c, x)
    _same_mass(x, P)
    return darsia.wasserstein_distance(c.use(x, "mass_1"), c.use(P, "mass_2"), method="cv2.emd")


@op("wasserstein_distance/newton", group="wasserstein_distance-newton")
def _wd_newton(c, x):
    import darsia

    _wdable(feat(x))
    P = partner(c, x)
    _same_mass(x, P)
    return darsia.wasserstein_distance(c.use(x, "mass_1"), c.use(P, "mass_2"), method="newton", options=c.use(c["WOPT"], "options"))


@op("wasserstein_distance/bregman", group="wasserstein_distance-bregman")
def _wd_bregman(c, x):
    import darsia

    _wdable(feat(x))
    P = partner(c, x)
    _same_mass(x, P)
    return darsia.wasserstein_distance(c.use(P, "mass_1"), c.use(x, "mass_2"), method="bregman", options=c.use(c["WOPT"], "options"))


@op("wasserstein_distance/newton,weight", group="wasserstein_distance-newton")
def _wd_newton_w(c, x):
    import darsia

    k = feat(x)
    _wdable(k)
    need(k.shape == (4, 4))
    P = partner(c, x)
    _same_mass(x, P)
    return darsia.wasserstein_distance(c.use(x, "mass_1"), c.use(P, "mass_2"), method="newton", weight=c.use(c["WIMG"], "weight"), options=c.use(c["WOPT"], "options"))


# ---- patches, concentration analysis ----------------------------------------------------------
@op("Patches", group="Patches")
def _patches(c, x):
    import darsia

    k = feat(x)
    need(k.sd == 2 and not k.series and all(n % 2 == 0 for n in k.shape[:2]))
    return darsia.Patches(c.use(x, "img"), c.use(c["NPATCH"], "num_patches"))


@op("Patches/overlap", group="Patches")
def _patches_ov(c, x):
    import darsia

    k = feat(x)
    need(k.sd == 2 and not k.series and all(n % 4 == 0 for n in k.shape[:2]))
    return darsia.Patches(c.use(x, "img"), c.use(c["NPATCH"], "num_patches"), rel_overlap=0.5)


@op("ConcentrationAnalysis()/base", group="ConcentrationAnalysis-ctor")
def _ca_ctor(c, x):
    import darsia

    k = feat(x)
    need(k.sd == 2 and k.dt in ("uint8", "uint16", "float32", "float64"))
    return darsia.ConcentrationAnalysis(base=c.use(x, "base"), model=c.use(c["SCA2"], "model"))


@op("ConcentrationAnalysis()/base-list", group="ConcentrationAnalysis-ctor")
def _ca_ctor_list(c, x):
    import darsia

    k = feat(x)
    need(k.sd == 2 and k.scalar and not k.series and _floaty(k))
    P = partner(c, x)
    return darsia.ConcentrationAnalysis(base=c.use([c.use(x, "base[0]"), c.use(P, "base[1]")], "base"), model=c.use(c["CLIP"], "model"))


@op("ConcentrationAnalysis.__call__", group="ConcentrationAnalysis-call")
def _ca_call(c, x):
    k = feat(x)
    need(k.sd == 2 and k.scalar and not k.series and k.shape == (4, 4) and k.dt in ("uint8", "float32", "float64"))
    return c.use(c["CA"], "analysis")(c.use(x, "img"))


OPS = list(REG)
_DEBUG = None

# -----------------------------------------------------------------------------------
# the transition checker


class World:
    def __init__(self, tier):
        self.tier = tier
        self.hist = []
        self.rebuild()

    def rebuild(self):
        """Fresh pool; previous result by replaying the (violation-free) history."""
        self.pool = make_pool(self.tier)
        self.prev = None
        for opname, xname in self.hist:
            c = Ctx(self.pool, self.prev)
            self.prev = REG[opname]["fn"](c, self.operand(xname))
        _FC.clear()
        self.pdig = {n: _sig(o) for n, o in self.pool.items()}
        self.prevdig = _sig(self.prev) if self.prev is not None else None
        self.pcont = pool_containers(self.pool)

    def operand(self, xname):
        if xname is None:
            return None
        if xname == "prev":
            return self.prev
        return self.pool[xname]

    def candidates(self, dom, first):
        """Variable operands for a call form of the given domain.  After the first step
        only the previous result is bound (see RULE)."""
        import darsia

        if dom == "none":
            return [None] if first else []
        T = darsia.Image if dom == "img" else np.ndarray
        out = []
        if first:
            names = (IMG_NAMES_THOROUGH if self.tier == "thorough" else IMG_NAMES_QUICK) if dom == "img" else ARR_NAMES
            out += [n for n in names if n in self.pool]
        elif isinstance(self.prev, T):
            out.append("prev")
        return out


def chainable(res):
    """Results that are extended: arrays and well-formed images.  Not extended: an image whose array rank contradicts its flags
    (comparisons of non-scalar images return such ScalarImages) and optical images in a colour space the OpticalImage constructor
    refuses (to_trichromatic('HLS' | 'LAB')): every metadata-based call form raises the documented NotImplementedError on them."""
    import darsia

    if isinstance(res, np.ndarray):
        return True
    if not isinstance(res, darsia.Image):
        return False
    k = feat(res)
    base = k.sd + (1 if k.series else 0)
    if (len(k.shape) != base) if k.scalar else (len(k.shape) <= base):
        return False
    if k.cls == "OpticalImage" and k.cs not in ("RGB", "BGR", "HSV"):
        return False
    return True


def transition(w, opname, xname, r, stats):
    """Execute one call form on the live world and evaluate every invariant.
    Returns (status, result): status in {'disabled', 'ok', 'violated'}."""
    spec = REG[opname]
    x = w.operand(xname)
    kx = feat(x)
    c = Ctx(w.pool, w.prev)
    np_state = np.random.get_state()
    py_state = _pyrandom.getstate()
    exc = None
    res = None
    try:
        res = spec["fn"](c, x)
    except Disabled:
        return "disabled", None
    except Exception as e:  # noqa: BLE001 - classified below
        exc = e
    stats["transitions"] += 1
    violated = False
    cellbase = f"C17/{spec['group']}"
    kl = klass(kx)

    # ---- arguments, pool, previous result unchanged
    changed = {}
    for obj, role, ignore, before in c.args:
        if _changed(obj, ignore, before):
            changed.setdefault(id(obj), (obj, role))
    # attribute to the innermost changed argument: drop an argument that merely contains another changed one
    changed_args = []
    for oid, (obj, role) in changed.items():
        inner = _reach_ids(obj) - {oid}
        if not any(o2 in inner for o2 in changed if o2 != oid):
            changed_args.append(role)
    arg_ids = {id(o) for o, _, _, _ in c.args}
    changed_pool = [n for n, o in w.pool.items() if id(o) not in arg_ids and _changed(o, (), w.pdig[n])]
    # pool objects passed with an 'ignore' list are compared through their registration only
    changed_prev = w.prev is not None and id(w.prev) not in arg_ids and _changed(w.prev, (), w.prevdig)
    bystanders = changed_pool + (["prev"] if changed_prev else [])
    detail = dict(op=opname, operand=xname, operand_kind=list(kx), history=w.hist, changed_arguments=sorted(set(changed_args)), changed_bystanders=bystanders,
                  exception=repr(exc) if exc else None)
    if changed_args:
        violated = True
        for role in sorted(set(changed_args)):
            r.fail(f"{cellbase}/modified:{role}", "every argument (pixel data, metadata, caller-owned containers) has the same content after the call", **detail)
    else:
        r.ok()
    if bystanders and not changed_args:
        violated = True
        r.fail(f"{cellbase}/modified:bystander", "objects that were not passed to the call (base operands sharing containers with an argument) are unchanged", **detail)
    else:
        r.ok()

    # ---- global random state
    np_after = np.random.get_state()
    same_np = np_after[0] == np_state[0] and np.array_equal(np_after[1], np_state[1]) and tuple(np_after[2:]) == tuple(np_state[2:])
    same_py = _pyrandom.getstate() == py_state
    if not r.check(same_np and same_py, f"{cellbase}/rng", "the global random state (numpy.random, random) is what it was before the call", op=opname, operand=xname,
                   numpy_changed=not same_np, python_changed=not same_py):
        violated = True
        np.random.set_state(np_state)
        _pyrandom.setstate(py_state)

    # ---- the call itself
    if spec["arith"]:
        cell = f"{cellbase}/value/{dtclass(kx)}"
        if exc is not None:
            r.fail(cell, "image arithmetic agrees element-wise with the same arithmetic on the raw arrays for every documented scalar type (it raised instead)",
                   op=opname, operand=xname, operand_kind=list(kx), history=w.hist, exception=repr(exc), expected_dtype=str(c.ref.dtype) if c.ref is not None else None)
        else:
            got = getattr(res, "img", None)
            ok = isinstance(got, np.ndarray) and got.shape == c.ref.shape and np.array_equal(got, c.ref, equal_nan=_numeric(kx))
            r.check(ok, cell, "image arithmetic agrees element-wise with the same arithmetic on the raw arrays (NaN == NaN)", op=opname, operand=xname,
                    operand_kind=list(kx), history=w.hist, got=got, want=c.ref)
    elif exc is not None:
        r.fail(f"{cellbase}/crash/{kl}/{dtclass(kx) if kx.what != 'none' else 'none'}", "a call form inside the guards returns (no exception escapes)", op=opname, operand=xname, operand_kind=list(kx),
               history=w.hist, exception=f"{type(exc).__name__}: {exc}")
    else:
        r.ok()

    if violated:
        w.rebuild()
        return "violated", None
    # documented in-place effects that are exempt from the comparison still dirty the world
    if any(id(o) in arg_ids and _changed(o, (), w.pdig[n]) for n, o in w.pool.items()) or (w.prev is not None and id(w.prev) in arg_ids and _changed(w.prev, (), w.prevdig)):
        # the result was produced on the discarded world: it is not extended
        w.rebuild()
        return ("raised" if exc is not None else "ok-unchainable"), None
    if exc is not None:
        return "raised", None
    return "ok", res


def coarse_kind(k):
    """Kind without extents / dimension / origin values: what they decide (which call forms are enabled, which pool operand is a
    compatible partner) enters the abstract state through enabled_forms()."""
    return (k.what, k.cls, k.sd, k.scalar, k.series, k.dt, k.cs, _short(k.datef), _short(k.timef), k.refd, len(k.shape))


def _short(f):
    return (f[0], f[2]) if isinstance(f, tuple) else f


# call forms left out of the quick tier's fixpoint search (they run in every chain case): variants that differ from a retained
# form only in the comparison operator / target dtype / colour channel
FIX_SKIP_QUICK = ("gt/", "le/", "ge/", "astype/float64", "astype/pyfloat", "astype/uint16", "img_as/float32", "img_as/float64", "img_as/uint16",
                  "img_as/pyint", "mul/npfloat64", "rmul/npfloat64", "to_monochromatic/green", "to_monochromatic/blue", "to_monochromatic/saturation",
                  "to_monochromatic/value", "to_trichromatic/LAB", "to_trichromatic/HLS")


def enabled_forms(w, x, skip=()):
    """Names of the call forms whose a-priori guards accept x as variable operand (dry run: stops at the first argument)."""
    import darsia

    dom = "img" if isinstance(x, darsia.Image) else "arr"
    out = []
    for opname in OPS:
        if REG[opname]["dom"] != dom or opname.startswith(skip):
            continue
        c = Ctx(w.pool, w.prev)
        c.dry = True
        try:
            REG[opname]["fn"](c, x)
        except Disabled:
            continue
        except DryStop:
            pass
        out.append(opname)
    return tuple(out)


def successors(w, first):
    for opname in OPS:
        for xname in w.candidates(REG[opname]["dom"], first):
            yield opname, xname


# -----------------------------------------------------------------------------------
# cases


def describe(tier):
    return {
        "call_forms": len(OPS),
        "groups": sorted({s["group"] for s in REG.values()}),
        "pool_images": IMG_NAMES_THOROUGH if tier == "thorough" else IMG_NAMES_QUICK,
        "chain_depth_without_abstraction": DEPTH[tier],
        "fixpoint_search": "BFS with (kind, alias signature) de-duplication, per root operand",
        "fix_state_cap": FIX_CAP[tier],
    }


def cases(tier):
    names = IMG_NAMES_THOROUGH if tier == "thorough" else IMG_NAMES_QUICK
    out = []
    for opname in OPS:
        dom = REG[opname]["dom"]
        xs = [None] if dom == "none" else (names if dom == "img" else ARR_NAMES)
        for xn in xs:
            out.append({"kind": "chain", "tier": tier, "op": opname, "x": xn, "depth": DEPTH[tier]})
    for xn in (list(names) + ARR_NAMES + [None]) if tier == "thorough" else FIX_ROOTS_QUICK:
        out.append({"kind": "fix", "tier": tier, "x": xn})
    return out


def crash_cell(case, exc, where):
    return f"C17/harness/{case.get('kind')}/{type(exc).__name__}"


def _note(r, w, opname, xname, res):
    kx = feat(w.operand(xname))
    sig = alias_sig(w.operand(xname), w.pcont) if xname == "prev" else ()
    r.nontriv((opname, tuple(kx), sig))
    r.outcome((opname, tuple(kx), tuple(feat(res)), alias_sig(res, w.pcont) if chainable(res) else type(res).__name__))


def run_chain(case, r):
    w = World(case["tier"])
    stats = collections.Counter()
    depth = case["depth"]
    traces = 0

    def extend(level):
        nonlocal traces
        # w.hist / w.prev describe the current state; try every successor binding prev
        leaf = True
        for opname, xname in list(successors(w, first=False)):
            if level >= 3 and opname not in CORE3:
                continue
            hist0 = list(w.hist)
            status, res = transition(w, opname, xname, r, stats)
            if status == "disabled":
                continue
            leaf = False
            if status == "ok":
                _note(r, w, opname, xname, res)
                if chainable(res) and level < depth and (level + 1 < 3 or opname in CORE3):
                    prev0, prevdig0 = w.prev, w.prevdig
                    w.hist = hist0 + [[opname, xname]]
                    w.prev, w.prevdig = res, _sig(res)
                    extend(level + 1)
                    # back to the parent state: pool is verified pristine, prev0 verified unchanged
                    w.hist = hist0
                    if w.prev is not res or _changed(prev0, (), prevdig0):
                        w.rebuild()
                    else:
                        w.prev, w.prevdig = prev0, prevdig0
                else:
                    traces += 1
            else:
                traces += 1
        if leaf:
            traces += 1

    status, res = transition(w, case["op"], case["x"], r, stats)
    if status == "disabled":
        r.count("disabled_roots", 1)
        return
    r.count("states", 1)
    if status == "ok":
        _note(r, w, case["op"], case["x"], res)
        if chainable(res) and depth >= 2:
            w.hist = [[case["op"], case["x"]]]
            w.prev, w.prevdig = res, _sig(res)
            extend(2)
    r.count("transitions", stats["transitions"])
    r.count("states", stats["transitions"] - 1)
    r.count("traces", max(traces, 1))


def run_fix(case, r):
    """Fixpoint of the abstract graph: nodes = (kind, alias signature) of the previous result, edges = call forms.  Every
    (node, call form enabled on some member of the node) pair is executed at least once on the real objects; a concrete state is
    extended only by the call forms that were not yet executed on its node."""
    tier = case["tier"]
    w = World(tier)
    stats = collections.Counter()
    explored = {}  # node -> set of call forms executed (or queued) on a member of the node
    frontier = collections.deque()
    cap = FIX_CAP[tier]
    capped = False
    maxdepth = 0
    fine = tier == "thorough"
    skip = () if fine else FIX_SKIP_QUICK

    def visit(hist, res):
        nonlocal capped, maxdepth
        k = feat(res)
        key = (coarse_kind(k) + ((k.datef, k.timef, k.nt) if fine else ()), alias_sig(res, w.pcont))
        if key not in explored:
            if len(explored) >= cap:
                capped = True
                return
            explored[key] = set()
        new = [f for f in enabled_forms(w, res, skip) if f not in explored[key]]
        if new:
            explored[key].update(new)
            frontier.append((hist, new))
            maxdepth = max(maxdepth, len(hist))

    # roots: every call form on the root operand
    for opname in OPS:
        dom = REG[opname]["dom"]
        if case["x"] is None:
            if dom != "none":
                continue
        elif (dom == "img") != (case["x"] not in ARR_NAMES) or dom == "none":
            continue
        status, res = transition(w, opname, case["x"], r, stats)
        if status == "ok" and chainable(res):
            visit([[opname, case["x"]]], res)
    while frontier:
        hist, forms = frontier.popleft()
        w.hist = hist
        w.rebuild()
        for opname in forms:
            status, res = transition(w, opname, "prev", r, stats)
            if status == "ok":
                _note(r, w, opname, "prev", res)
                if chainable(res):
                    visit(hist + [[opname, "prev"]], res)
    r.count("states", len(explored))
    r.count("transitions", stats["transitions"])
    r.count("traces", stats["transitions"])
    r.count("fix_max_depth", maxdepth)
    if capped:
        r.count("cap_hit", 1)
    else:
        r.count("fixpoints_reached", 1)
    r.outcome(("fix", case["x"], len(explored), maxdepth))
    if _DEBUG is not None:
        _DEBUG["seen"] = explored


def run_case(case, r):
    if case["kind"] == "chain":
        run_chain(case, r)
    else:
        run_fix(case, r)
