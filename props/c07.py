"""C07 — grid numbering and connectivity form a consistent bijection (E-lattice, exhaustive).

Reference model: explicit loops over np.ndindex; nothing of Grid is trusted except the
attribute under test.  Cell identity goes through ``grid.cell_index`` (a bijection that
is itself checked), so the oracle does not prescribe an ordering beyond what the
statement says.
"""

from __future__ import annotations

import itertools

import numpy as np

ID = "C07"
LEVEL = "exploration"
EXHAUSTIVE = True
RULE = (
    "every grid shape with extents 1..N per axis (N per dimension in 'bounds') x voxel-size "
    "form {float, list}; plus grids derived from images of every such shape (quick: 3-D up "
    "to 3; scalar, vector, series and vector-series images); every grid is re-inspected after FV operators and a distance solver were built on it. A case is non-trivial when the grid has at least one face; distinct = distinct "
    "(kind, shape, voxel form)."
)
ASSUMPTIONS = [
    "numpy indexing semantics",
    "shapes beyond the stated extents are not explored",
]

BOUNDS = {"quick": {1: 12, 2: 7, 3: 5}, "thorough": {1: 40, 2: 12, 3: 7}}
VS = {1: [0.5], 2: [0.5, 2.0], 3: [0.5, 2.0, 0.25]}


def describe(tier):
    return {"max_extent_per_dim": BOUNDS[tier], "voxel_forms": ["float 1.0", "list dyadic"]}


def cases(tier):
    out = []
    for dim in (1, 2, 3):
        n = BOUNDS[tier][dim]
        shapes = sorted(itertools.product(range(1, n + 1), repeat=dim), key=lambda s: (sum(s), s))
        for s in shapes:
            out.append({"kind": "grid", "shape": list(s), "vs": "float"})
            out.append({"kind": "grid", "shape": list(s), "vs": "scalar"})
            out.append({"kind": "grid", "shape": list(s), "vs": "list"})
            if tier == "thorough" or max(s) <= (12, 5, 3)[dim - 1]:
                out.append({"kind": "image", "shape": list(s)})
                # images with a component axis and / or a time axis: the grid is that of the SPATIAL shape
                for payload in ("vector", "series", "vector-series"):
                    if tier == "thorough" or sum(s) % 3 == {"vector": 0, "series": 1, "vector-series": 2}[payload]:
                        out.append({"kind": "image", "shape": list(s), "payload": payload})
    out.sort(key=lambda c: (sum(c["shape"]), len(c["shape"]), c["kind"]))
    return out


def shape_class(shape):
    if min(shape) == 1:
        return "single-cell-axis"
    if min(shape) == 2:
        return "two-cell-axis"
    return "generic"


def run_case(case, r):
    import darsia

    shape = tuple(case["shape"])
    dim = len(shape)
    cls = shape_class(shape)

    def cell(clause):
        return f"C07/{clause}/dim={dim}/{cls}/{case['kind']}"

    if case["kind"] == "grid":
        vs = {"float": 1.0, "scalar": 0.5, "list": list(VS[dim])}[case["vs"]]
        g = darsia.Grid(shape, vs)
        vs_ref = {"float": np.ones(dim), "scalar": np.full(dim, 0.5), "list": np.array(VS[dim])}[case["vs"]]
    else:
        dims = [0.5 * s for s in shape]  # voxel size 0.5 on every axis, exact
        payload = case.get("payload", "scalar")
        full = shape + ((2,) if "series" in payload else ()) + ((3,) if "vector" in payload else ())
        kw = {"series": True, "time": [0.0, 1.0]} if "series" in payload else {}
        img = darsia.Image(np.zeros(full), dimensions=dims, space_dim=dim, scalar="vector" not in payload, **kw)
        g = darsia.generate_grid(img)
        vs_ref = 0.5 * np.ones(dim)
        r.check(tuple(g.shape) == shape, cell("generate_grid"), "grid shape equals image num_voxels", got=list(g.shape))
    r.check(
        np.array_equal(np.asarray(g.voxel_size, dtype=float), vs_ref),
        cell("generate_grid" if case["kind"] == "image" else "voxel_size"),
        "grid voxel size equals the requested / the image's",
        got=g.voxel_size,
        want=vs_ref,
    )

    ncell = int(np.prod(shape))
    r.check(int(g.num_cells) == ncell and g.dim == dim, cell("counts"), "num_cells = prod(shape)", got=int(g.num_cells))

    # --- cell numbering: a bijection shape -> 0..n-1
    ci = np.asarray(g.cell_index)
    ok = ci.shape == shape and sorted(ci.ravel().tolist()) == list(range(ncell))
    if not r.check(ok, cell("cell-numbering"), "cell_index is a bijection onto 0..num_cells-1"):
        return
    pos = {int(ci[idx]): idx for idx in np.ndindex(*shape)}

    # --- face counts / numbering
    want_counts = [int(np.prod([shape[a] - (1 if a == d else 0) for a in range(dim)])) for d in range(dim)]
    got_counts = [int(x) for x in g.num_faces_per_axis]
    r.check(got_counts == want_counts, cell("counts"), "faces per axis = prod(shape - e_d)", got=got_counts, want=want_counts)
    nf = sum(want_counts)
    r.check(int(g.num_faces) == nf, cell("counts"), "num_faces = sum over axes", got=int(g.num_faces), want=nf)
    allf = np.concatenate([np.asarray(f, dtype=int).ravel() for f in g.faces]) if dim else np.array([], int)
    r.check(
        sorted(allf.tolist()) == list(range(nf)) and [len(f) for f in g.faces] == want_counts,
        cell("face-numbering"),
        "faces of all axes partition 0..num_faces-1 (each face numbered exactly once)",
        got=[np.asarray(f).tolist() for f in g.faces],
    )
    conn = np.asarray(g.connectivity)
    if not r.check(conn.shape == (nf, 2), cell("connectivity"), "connectivity has one row of two cells per face", got=list(conn.shape)):
        return
    if nf > 0:
        r.nontriv((case["kind"], shape, case.get("vs")))
    r.outcome((shape, conn.tolist()))

    # --- connectivity: the faces of axis d are exactly the neighbour pairs along d
    for d in range(dim):
        e = np.eye(dim, dtype=int)[d]
        want_pairs = set()
        for idx in np.ndindex(*shape):
            if idx[d] + 1 < shape[d]:
                want_pairs.add((idx, tuple(np.array(idx) + e)))
        got_pairs = []
        bad = None
        for f in np.asarray(g.faces[d], dtype=int):
            c0, c1 = int(conn[f, 0]), int(conn[f, 1])
            if c0 not in pos or c1 not in pos:
                bad = (int(f), c0, c1)
                break
            got_pairs.append((pos[c0], pos[c1]))
        r.check(bad is None, cell("connectivity"), "connectivity names existing cells", bad=bad, axis=d)
        r.check(
            len(got_pairs) == len(set(got_pairs)) and set(got_pairs) == want_pairs,
            cell("connectivity"),
            "faces of axis d join exactly the pairs (c, c+e_d), lower index first, each once",
            axis=d,
            n_got=len(got_pairs),
            n_want=len(want_pairs),
            sample_got=got_pairs[:3],
        )
        # --- reverse connectivity: exact inverse, -1 iff outer boundary
        rc = np.asarray(g.reverse_connectivity)
        if not r.check(rc.shape == (dim, ncell, 2), cell("reverse"), "reverse_connectivity shape (dim, cells, 2)", got=list(rc.shape)):
            return
        want_rc = -np.ones((ncell, 2), dtype=int)
        for f in np.asarray(g.faces[d], dtype=int):
            want_rc[conn[f, 0], 1] = f  # face is the upper side of its lower cell
            want_rc[conn[f, 1], 0] = f
        r.check(np.array_equal(rc[d], want_rc), cell("reverse"), "cell->face lookup is the exact inverse of face->cell", axis=d, got=rc[d], want=want_rc)
        for c in range(ncell):
            idx = pos[c]
            lo_boundary, hi_boundary = idx[d] == 0, idx[d] == shape[d] - 1
            if (rc[d, c, 0] == -1) != lo_boundary or (rc[d, c, 1] == -1) != hi_boundary:
                r.fail(cell("reverse"), "'no face' is reported exactly on the outer boundary", axis=d, cell_index=c, multi=idx, got=rc[d, c])
                break
        else:
            r.ok()
        # --- the multi-index layout of the faces of axis d: face_index[d] has the grid's shape with one
        # layer less along d, and its entry at multi-index idx is the face between cells idx and idx + e_d
        fi = np.asarray(g.face_index[d])
        want_fs = tuple(shape[a] - (1 if a == d else 0) for a in range(dim))
        okfi = fi.shape == want_fs and tuple(int(x) for x in g.faces_shape[d]) == want_fs
        if okfi:
            for idx in np.ndindex(*want_fs):
                f_ = int(fi[idx])
                up = tuple(np.array(idx) + e)
                if not (0 <= f_ < nf and pos.get(int(conn[f_, 0])) == idx and pos.get(int(conn[f_, 1])) == up):
                    okfi = False
                    break
        r.check(okfi, cell("face-layout"), "face_index[d] lays the faces of axis d out on the grid: the face at multi-index idx joins cells idx and idx + e_d", axis=d, got_shape=list(fi.shape), want_shape=list(want_fs))
        # interior faces of an axis: those away from the outer boundary in every tangential direction
        # (1-D: away from the two end cells)
        if okfi:
            if dim == 1:
                want_int = {int(fi[(k,)]) for k in range(1, want_fs[0] - 1)}
            else:
                want_int = {int(fi[idx]) for idx in np.ndindex(*want_fs) if all(1 <= idx[t] <= want_fs[t] - 2 for t in range(dim) if t != d)}
            got_int = {int(x) for x in np.asarray(g.interior_faces[d], dtype=int).ravel().tolist()}
            r.check(got_int == want_int, cell("interior-faces"), "interior faces of an axis are the faces away from the outer boundary in every tangential direction", axis=d, got=sorted(got_int), want=sorted(want_int))
        # --- interior / exterior partition
        inter = np.asarray(g.interior_faces[d], dtype=int).ravel().tolist()
        exter = np.asarray(g.exterior_faces[d], dtype=int).ravel().tolist()
        fd = np.asarray(g.faces[d], dtype=int).ravel().tolist()
        r.check(
            len(set(inter)) == len(inter)
            and len(set(exter)) == len(exter)
            and not (set(inter) & set(exter))
            and set(inter) | set(exter) == set(fd),
            cell("partition"),
            "interior and exterior faces partition the faces of the axis",
            axis=d,
            interior=inter,
            exterior=exter,
            faces=fd,
        )
        # --- corner indices: corners of the reference cell lying on the face
        cc = np.asarray(g.cell_corners)
        cci = np.asarray(g.cell_corner_indices)
        want0 = {k for k in range(len(cc)) if cc[k][d] == 1.0}
        want1 = {k for k in range(len(cc)) if cc[k][d] == 0.0}
        okc = cci.shape == (nf, 2, 2 ** (dim - 1))
        if okc:
            for f in fd:
                s0, s1 = cci[f, 0].tolist(), cci[f, 1].tolist()
                if set(s0) != want0 or set(s1) != want1 or len(set(s0)) != len(s0) or len(set(s1)) != len(s1):
                    okc = False
                    break
        r.check(okc, cell("corners"), "recorded corners are the reference-cell corners on that face (upper side of the lower cell, lower side of the upper cell)", axis=d)
    # --- the grid is a value other objects are built ON: assembling finite-volume operators and a
    # Wasserstein solver on it must leave every table as it was verified above
    from mc.canon import digest

    before = digest(vars(g))
    before_each = {k: digest(v) for k, v in vars(g).items()}
    try:
        darsia.FVDivergence(g), darsia.FVMass(g, "cells"), darsia.FVMass(g, "faces")
        if dim >= 2 and nf > 0:
            darsia.FVTangentialFaceReconstruction(g), darsia.FVFullFaceReconstruction(g)
        if nf > 0:
            darsia.face_to_cell(g, np.ones(nf))
            # evaluation points handed over the way the library's own consumers do it: the rows of
            # the grid's corner table themselves (views, not copies)
            for corner in g.cell_corners:
                darsia.face_to_cell(g, np.ones(nf), corner if dim > 1 else float(corner[0]))
            darsia.cell_to_face_average(g, np.ones(shape), "harmonic")
        if ncell >= 2:
            import darsia.measure.wasserstein as W

            W.WassersteinDistanceNewton(g, None, {"mobility_mode": W.MobilityMode.SUBCELL_BASED})
    except Exception as e:  # noqa: BLE001  (usability of these consumers is C04/C06's business)
        r.count("consumer_raised")
    after = digest(vars(g))
    r.check(after == before, cell("unchanged-by-consumers"), "numbering and connectivity tables are unchanged after finite-volume operators and a distance solver were built on the grid", changed=[k for k, v in vars(g).items() if before_each.get(k) != digest(v)] or None, reverse_connectivity_min=int(np.min(np.asarray(g.reverse_connectivity))) if ncell else None)
    rc_after = np.asarray(g.reverse_connectivity)
    r.check(rc_after.shape == (dim, ncell, 2) and bool(np.all((rc_after >= -1) & (rc_after < max(nf, 1)))), cell("unchanged-by-consumers"), "'no face' is still -1 and every recorded face number exists", max=int(rc_after.max()) if rc_after.size else None)
    # reference corners themselves: all 2^dim distinct 0/1 vectors
    cc = np.asarray(g.cell_corners)
    r.check(
        cc.shape == (2**dim, dim) and len({tuple(x) for x in cc.tolist()}) == 2**dim and set(np.unique(cc).tolist()) <= {0.0, 1.0},
        cell("corners"),
        "reference cell has 2^dim distinct corners in {0,1}^dim",
    )
