"""C16 — solvers and regularisers carry no hidden state between calls (E-state).

Hidden state = the explicit solver / accelerator / distance objects of the harness, the
module-level default solver instances found through ``__defaults__`` of the anchored
functions, plus class-level and module-level data of the anchored modules.  Transitions
= parameterised calls (Jacobi / MG solves with ``update_params`` in between,
H1_regularization, split_bregman_tvd, tvd, Anderson-accelerated runs, Wasserstein
distances with re-used objects).

Oracle = a table computed once per check run: every alphabet call executed as the FIRST
darsia call of its own interpreter process.  Every call on every explored path must return
the table value bit for bit (1e-12 for the AMG back-end).  The boring reference model of
the check only tracks which coefficients are currently set on which object, i.e. which
table row a call has to reproduce, and the a-priori history class used for the cell name.

The table processes are forked from a "zygote" interpreter that has imported darsia and
executed nothing else (a copy of a fresh interpreter; 3 s instead of 10 min of imports);
a subset (quick) / all (thorough) of the rows is recomputed in genuinely new interpreters
(``subprocess``) and must agree bit for bit, otherwise the check aborts loudly.
"""

from __future__ import annotations

import collections
import copy
import hashlib
import json
import os
import subprocess
import sys
import time
import types

import numpy as np

from mc.canon import digest

ID = "C16"
LEVEL = "model_checking"
EXHAUSTIVE = True
RULE = (
    "groups of objects that can share hidden state: jacobi {Jacobi maxiter=3, Jacobi tol=1e-3} ops update_params((1,.5)|(2,.1)), "
    "solve(h in {1,2}, 6x6|4x9); mg {MG depth 0, depth 1} ops update_params, solve(8x8|6x10); mg-het {MG with array mass coefficient} "
    "ops update_params(P1|P2), solve(2 data sets); h1-default: H1_regularization / _H1_regularization_array / _image with the default "
    "solver, mu in {.1,5} x omega in {1,2} x {6x6, 4x9, vector 6x6x2, Image, 3-D}; h1-explicit: same with one re-used Jacobi / MG; "
    "tvd-default: split_bregman_tvd (mu, ell in {None,1}, omega, isotropic, adaptive) and tvd('heterogeneous bregman') on the shared "
    "default solver; tvd-explicit: split_bregman_tvd and H1_regularization sharing one explicit Jacobi; anderson: AndersonAcceleration "
    "depth 2 x restart {None, 3} x tensor, runs of 1..5 iterations on problems of dimension 5 / 7 / 2x3, also started at the restart "
    "boundary 3; w:<obj>: Newton / Bregman / adaptive Bregman x {direct, amg} (+ Anderson-accelerated) distance objects on pairs P1..P3; "
    "w-shared: two distance objects on one Grid; cross: one op of every group in one world (depth 2, thorough 3). Per group: BFS with "
    "full-content de-duplication (objects + default instances + class/module data of the anchored modules) over the real objects to depth 4 "
    "(thorough 6) or a fixpoint (groups with 0.3 s calls: one BFS per first op, on separate workers), and all un-deduplicated sequences of "
    "length <= 2 (thorough 3; distance objects 3 / 4). Every call on every path is compared with the same call issued first in its own interpreter. "
    "Non-trivial = observable call preceded by at least one other op; distinct = distinct (group, op history)."
)
ASSUMPTIONS = [
    "thread counts pinned to 1: identical inputs on identical code give identical bits (validated across processes at every run)",
    "table rows are computed in forks of an interpreter that has only imported darsia; validated against new interpreters",
    "'the same call' for a solver whose coefficients were set by update_params = same constructor, update_params, call, in a new process",
    "inputs are rebuilt for every call (mutation of arguments is C17's concern)",
    "AMG back-end compared at 1e-12 relative, everything else bit-identical",
]

HOME = os.environ.get("VERIF_HOME", os.path.dirname(os.path.dirname(os.path.abspath(__file__))))
ANCHOR_MODULES = [
    "darsia.utils.linear_solvers.solver",
    "darsia.utils.linear_solvers.jacobi",
    "darsia.utils.linear_solvers.mg",
    "darsia.restoration.h1_regularization",
    "darsia.restoration.split_bregman_tvd",
    "darsia.restoration.tvd",
    "darsia.utils.andersonacceleration",
    "darsia.measure.wasserstein",
]

# =============================================================================== inputs
SHAPES = {
    "a66": (6, 6),
    "b49": (4, 9),
    "a88": (8, 8),
    "d88": (8, 8),
    "b6x10": (6, 10),
    "v662": (6, 6, 2),
    "c345": (3, 4, 5),
    "I66": (6, 6),
    "a66f": (6, 6),  # same values as a66, stored as float32 (dtype axis)
    "a88f": (8, 8),
    "s46": (4, 6),  # smaller than 2^(depth+1) for a depth-2 hierarchy
    "e1616": (16, 16),
}
_SALT = {"a66": 0, "b49": 1, "a88": 2, "d88": 5, "b6x10": 3, "v662": 4, "c345": 6, "I66": 7, "a66f": 0, "a88f": 2, "s46": 8, "e1616": 9}


def pattern(shape, salt):
    n = int(np.prod(shape))
    return (((np.arange(n) * 7 + 3 * salt) % 11) / 16.0 + ((np.arange(n) // 5) % 3) / 8.0).reshape(shape)


def make_input(name):
    a = pattern(SHAPES[name], _SALT[name])
    if name.endswith("f"):
        return a.astype(np.float32)
    if name.startswith("I"):
        import darsia

        return darsia.Image(a, width=1.5, height=0.75, space_dim=2, scalar=True)
    return a


def make_rhs(name):
    out = pattern(SHAPES[name], _SALT[name] + 11) + 0.25
    return out.astype(np.float32) if name.endswith("f") else out


def coef_value(c, shape=(8, 8)):
    """Scalar coefficient, or a named heterogeneous pattern (fresh array every time)."""
    if isinstance(c, str):
        i, j = np.indices(shape)
        if c == "P1":
            return 1.0 + ((i + j) % 3).astype(float)
        if c == "P2":
            return 1.0 + 1.5 * ((i * j) % 2).astype(float)
        raise KeyError(c)
    return float(c)


# Wasserstein inputs: 4 x 5 cells, voxel size 0.25, three mass-balanced pairs
W_SHAPE = (4, 5)


def w_pair(p):
    import darsia

    if p.startswith("B"):
        # a 12 x 13 grid (156 cells: beyond the size up to which the AMG back-end solves directly)
        a, b = np.zeros((12, 13)), np.zeros((12, 13))
        if p == "B1":
            a[1:4, 1:5] = 1.0
            b[8:11, 7:11] = 1.0
        else:
            a[:, 0] = 1.0
            b[5, :12] = 1.0
        kw = dict(width=1.3, height=1.2, space_dim=2, scalar=True)
        return darsia.Image(a, **kw), darsia.Image(b, **kw)
    a, b = np.zeros(W_SHAPE), np.zeros(W_SHAPE)
    # "<P>t": the same pair on a domain of the same voxel COUNT and the same voxel VOLUME but another
    # aspect ratio (voxels 0.125 x 0.5 instead of 0.25 x 0.25) -- anything kept between distance
    # computations and keyed by shape and cell volume alone would be taken for the other geometry
    stretched = p.endswith("t")
    p = p[:2]
    if p == "P1":
        a[0, 0] = 4
        b[3, 4] = 4
    elif p == "P2":
        a[1, 1] = 2
        a[2, 3] = 2
        b[0, 4] = 1
        b[3, 0] = 3
    elif p == "P3":
        a[:, 0] = 1
        b[:, 4] = 1
    else:
        raise KeyError(p)
    kw = dict(width=1.25, height=1.0, space_dim=2, scalar=True)
    if stretched:
        kw.update(width=2.5, height=0.5)
    return darsia.Image(a, **kw), darsia.Image(b, **kw)


def aa_problem(p):
    n = {"p5": 5, "p7": 7, "t23": 6, "u23": 6}[p]
    k = {"p5": 0, "p7": 1, "t23": 2, "u23": 3}[p]
    M = np.zeros((n, n))
    for i in range(n):
        M[i, i] += 0.3
        M[i, (i + 1) % n] += 0.25
        M[i, (3 * i + 1 + k) % n] += 0.125
    b = (np.arange(n) + k) % 4 / 8.0 + 0.25
    return M, b


# ============================================================================== objects
C0 = [1.0, 0.5]
C1 = [2.0, 0.1]
W_OPTS = {
    "Wn-d": ("newton", {"L": 1e2, "linear_solver": "direct", "formulation": "pressure"}),
    "Wn-f": ("newton", {"L": 1e2, "linear_solver": "direct", "formulation": "full"}),
    "Wn-a": ("newton", {"L": 1e2, "linear_solver": "amg", "formulation": "pressure", "linear_solver_options": {"atol": 1e-10}}),
    "Wn-aa": ("newton", {"L": 1e2, "linear_solver": "direct", "formulation": "pressure", "aa_depth": 2, "aa_restart": 3}),
    "Wb-d": ("bregman", {"L": 1.0, "linear_solver": "direct", "formulation": "pressure"}),
    "Wb-a": ("bregman", {"L": 1.0, "linear_solver": "amg", "formulation": "pressure", "linear_solver_options": {"atol": 1e-10}}),
    # a penalty parameter other than that of the initial Darcy solve (L_init = 1): the cached linear
    # solver of one call does not fit the first system of the next call
    "Wb-L4": ("bregman", {"L": 4.0, "linear_solver": "direct", "formulation": "full"}),
    "Wab-late-L4": ("adaptive-bregman-late", {"L": 0.25, "linear_solver": "direct", "formulation": "pressure"}),
    # AMG objects on the 156-cell grid, with few (inexact) linear iterations so that the AMG hierarchy
    # matters; one of them with its own amg_options
    "WnB-opts": ("newton", {"L": 1e2, "linear_solver": "amg", "formulation": "pressure", "linear_solver_options": {"atol": 1e-12, "maxiter": 3}, "amg_options": {"max_coarse": 8, "max_levels": 3}}),
    "WnB-plain": ("newton", {"L": 1e2, "linear_solver": "amg", "formulation": "pressure", "linear_solver_options": {"atol": 1e-12, "maxiter": 3}}),
    "Wb-aa": ("bregman", {"L": 1.0, "linear_solver": "direct", "formulation": "pressure", "aa_depth": 2, "aa_restart": 3}),
    "Wab-d": ("adaptive-bregman", {"L": 1.0, "linear_solver": "direct", "formulation": "pressure"}),
    "Wab-a": ("adaptive-bregman", {"L": 1.0, "linear_solver": "amg", "formulation": "pressure", "linear_solver_options": {"atol": 1e-10}}),
    "Wab-late": ("adaptive-bregman-late", {"L": 1.0, "linear_solver": "direct", "formulation": "pressure"}),
    "Wab-aa": ("adaptive-bregman", {"L": 1.0, "linear_solver": "direct", "formulation": "pressure", "aa_depth": 2, "aa_restart": 3}),
}
W_ITER = 6
SOLVERS = {
    "J": ("Jacobi", dict(maxiter=3), C0),
    "Jt": ("Jacobi", dict(maxiter=30, tol=1e-3), C0),
    "M0": ("MG", dict(depth=0, smoother_iterations=2, maxiter=2), C0),
    "M1": ("MG", dict(depth=1, smoother_iterations=2, maxiter=2), C0),
    "Mh": ("MG", dict(depth=1, smoother_iterations=2, maxiter=2), ["P1", 0.5]),
    "M2": ("MG", dict(depth=2, smoother_iterations=2, maxiter=2), C0),  # deeper hierarchy: too deep for small arrays
    "Jh": ("Jacobi", dict(maxiter=3), [0.5, "P1"]),  # array-valued diffusion coefficient
    "Jx": ("Jacobi", dict(maxiter=2), None),
    "Mx": ("MG", dict(depth=1, smoother_iterations=2, maxiter=1), None),
}
ANDERSON = {
    "A": dict(dimension=None, depth=2, restart=None),
    "Ar": dict(dimension=None, depth=2, restart=3),
    "At": dict(dimension=(2, 3), depth=2, restart=None),
}


def _adaptive_schedule(it):
    return it % 2 == 0


def _late_schedule(it):
    """Re-weighting that does not fire in the first iteration (it = 2, 5, ...)."""
    return it % 3 == 2


def _tvd_adaptive(it):
    return it == 0


def make_object(name, shared):
    """Build a harness object exactly as every history (and every table process) does."""
    import darsia

    if name in SOLVERS:
        kind, kw, c0 = SOLVERS[name]
        kw = dict(kw)
        if c0 is not None:
            kw.update(mass_coeff=coef_value(c0[0]), diffusion_coeff=coef_value(c0[1]))
        return getattr(darsia, kind)(**kw)
    if name in ANDERSON:
        return darsia.AndersonAcceleration(**ANDERSON[name])
    if name == "OPTS":
        return {"num_iter": W_ITER, "return_info": True, "linear_solver": "direct", "formulation": "pressure"}
    if name in W_OPTS:
        method, opts = W_OPTS[name]
        opts = copy.deepcopy(opts)
        opts.update(num_iter=W_ITER, return_info=True)
        if method == "adaptive-bregman":
            opts["bregman_update"] = _adaptive_schedule
        if method == "adaptive-bregman-late":
            opts["bregman_update"] = _late_schedule
        gk = "gridB" if name.startswith("WnB") else "grid"
        if gk not in shared:
            shared[gk] = darsia.generate_grid(w_pair("B1" if gk == "gridB" else "P1")[0])
        cls = darsia.WassersteinDistanceNewton if method == "newton" else darsia.WassersteinDistanceBregman
        return cls(shared[gk], None, opts)
    raise KeyError(name)


def initial_model(objs):
    return {o: {"c": SOLVERS[o][2], "via": "ctor"} for o in objs if o in SOLVERS and SOLVERS[o][2] is not None}


# ================================================================================== ops
def op_set(o, c):
    return {"t": "set", "o": o, "c": c}


def op_solve(o, h, i):
    return {"t": "solve", "o": o, "h": h, "i": i}


def op_h1(f, i, mu, om, s="default", dim=2, sp=None):
    """sp: the scalar parameters are handed over as NumPy scalars of that type (same values)."""
    k = {"t": "h1", "f": f, "i": i, "mu": mu, "om": om, "s": s, "dim": dim}
    if sp:
        k["sp"] = sp
    return k


def op_sb(i, mu, ell, om=1.0, iso=False, s="default", adaptive=False):
    return {"t": "sbtvd", "i": i, "mu": mu, "ell": ell, "om": om, "iso": iso, "s": s, "ad": adaptive}


def op_tvd(i, w, om):
    return {"t": "tvd", "i": i, "w": w, "om": om}


def op_aa(o, p, s, n):
    return {"t": "aa", "o": o, "p": p, "s": s, "n": n}


def op_w(o, p):
    return {"t": "w1", "o": o, "p": p}


def op_wf(m, p):
    return {"t": "w1f", "m": m, "p": p}


def op_ws(m, p):
    """New solver object of method m built from the caller-owned options dict OPTS (which does
    not pin "L"), then one distance computation."""
    return {"t": "w1s", "m": m, "p": p}


def group_spec(g, tier):
    """-> (object names, alphabet, rebuild mode)."""
    H = "H1_regularization"
    if g == "jacobi":
        objs = ["J", "Jt"]
        ops = []
        for o in objs:
            ops += [op_set(o, C0), op_set(o, C1)]
            ops += [op_solve(o, h, i) for h in (1, 2) for i in ("a66", "b49")]
            ops += [op_solve(o, 1, "a66f")]  # same shape, other dtype
            ops += [op_solve(o, None, "a66")]  # call without a grid spacing (library default)
        return objs, ops, "snap"
    if g == "mg":
        objs = ["M0", "M1"]
        ops = []
        for o in objs:
            ops += [op_set(o, C0), op_set(o, C1)] + [op_solve(o, None, i) for i in ("a88", "b6x10")]
        ops += [op_solve("M1", None, "a88f")]
        # a depth-2 solver applied to an array too small for its hierarchy (refused) and to arrays it fits
        ops += [op_set("M2", C0), op_solve("M2", None, "s46"), op_solve("M2", None, "e1616"), op_solve("M2", None, "a88")]
        return objs + ["M2"], ops, "snap"
    if g == "jacobi-het":
        ops = [op_set("Jh", [0.5, "P1"]), op_set("Jh", ["P2", "P1"]), op_set("Jh", [2.0, "P2"])]
        ops += [op_solve("Jh", h, "a88") for h in (1, 2, None)]
        return ["Jh"], ops, "snap"
    if g == "mg-het":
        return ["Mh"], [op_set("Mh", ["P1", 0.5]), op_set("Mh", ["P2", 0.5]), op_set("Mh", [3.0, 0.5]), op_solve("Mh", None, "a88"), op_solve("Mh", None, "d88")], "snap"
    if g == "h1-default":
        ops = [op_h1(H, i, mu, om) for i in ("a66", "b49", "v662", "I66") for mu in (0.1, 5.0) for om in (1.0, 2.0)]
        ops += [op_h1(H, "c345", 0.1, 1.0, dim=3), op_h1(H, "c345", 5.0, 2.0, dim=3)]
        ops += [op_h1(H, "a66f", 0.1, 1.0)]  # float32 image through the shared default solver
        # the same parameter values spelled as NumPy scalars (float32 / int64 / float64)
        ops += [op_h1(H, "a66", 5.0, 2.0, sp="float32"), op_h1(H, "a66", 5.0, 2.0, sp="int64"), op_h1(H, "a66", 5.0, 2.0, sp="float64")]
        ops += [op_h1("_H1_regularization_array", "a66", 0.1, 1.0), op_h1("_H1_regularization_array", "a66", 5.0, 2.0)]
        ops += [op_h1("_H1_regularization_image", "I66", 0.1, 1.0), op_h1("_H1_regularization_image", "I66", 5.0, 2.0)]
        return [], ops, "snap"
    if g == "h1-explicit":
        ops = [op_h1(H, i, mu, om, s=s) for s in ("Jx", "Mx") for i in ("a66", "b49", "v662") for mu in (0.1, 5.0) for om in (1.0, 2.0)]
        return ["Jx", "Mx"], ops, "snap"
    if g == "tvd-default":
        ops = [op_sb("a66", 0.1, None), op_sb("a66", 0.4, None), op_sb("a66", 0.1, 1.0), op_sb("a66", 0.1, None, iso=True)]
        ops += [op_sb("b49", 0.4, None), op_tvd("a66", 0.1, 1.0), op_tvd("a66", 0.4, 1.0)]
        if tier == "thorough":
            ops += [op_sb("a66", 0.4, 1.0), op_sb("a66", 0.1, None, om=2.0), op_sb("a66", 0.1, None, adaptive=True)]
            ops += [op_tvd("a66", 0.1, 2.0), op_tvd("I66", 0.1, 1.0)]
        return [], ops, "snap"
    if g == "tvd-explicit":
        ops = [op_sb("a66", 0.1, None, s="Jx"), op_sb("a66", 0.4, None, s="Jx"), op_sb("a66", 0.1, 1.0, s="Jx")]
        ops += [op_h1(H, "a66", 5.0, 1.0, s="Jx"), op_h1(H, "a66", 0.1, 2.0, s="Jx")]
        return ["Jx"], ops, "snap"
    if g == "anderson":
        ops = [op_aa("A", p, 0, n) for p in ("p5", "p7") for n in (1, 2, 3, 5)]
        ops += [op_aa("Ar", p, s, n) for p in ("p5", "p7") for (s, n) in ((0, 2), (0, 5), (3, 1), (3, 2))]
        ops += [op_aa("At", p, 0, n) for p in ("t23", "u23") for n in (2, 5)]
        return ["A", "Ar", "At"], ops, "snap"
    if g.startswith("w:"):
        o = g[2:]
        ops = [op_w(o, p) for p in ("P1", "P2", "P3")]
        if o == "Wn-d":
            ops += [op_wf("newton", "P1"), op_wf("newton", "P1t")]
        if o == "Wb-d":
            ops += [op_wf("bregman", "P2"), op_wf("bregman", "P2t")]
        return [o], ops, "replay"
    if g == "w-amg-options":
        return ["WnB-opts", "WnB-plain"], [op_w(o, pp) for o in ("WnB-opts", "WnB-plain") for pp in ("B1", "B2")], "replay"
    if g == "w-shared-options":
        return ["OPTS"], [op_ws("newton", "P1"), op_ws("bregman", "P1"), op_ws("bregman", "P2"), op_ws("newton", "P2")], "replay"
    if g == "w-shared":
        return ["Wn-d", "Wb-d"], [op_w(o, p) for o in ("Wn-d", "Wb-d") for p in ("P1", "P2")], "replay"
    if g == "cross":
        ops = [
            op_solve("J", 2, "a66"),
            op_set("J", C1),
            op_solve("M1", None, "a88"),
            op_h1(H, "a66", 0.1, 1.0),
            op_h1(H, "a66", 5.0, 2.0),
            op_h1(H, "a66", 5.0, 1.0, s="Jx"),
            op_sb("a66", 0.1, None),
            op_sb("a66", 0.4, None, s="Jx"),
            op_aa("A", "p5", 0, 3),
            op_w("Wn-d", "P1"),
            op_w("Wn-d", "P2"),
        ]
        return ["J", "M1", "Jx", "A", "Wn-d"], ops, "replay"
    raise KeyError(g)


GROUPS = (
    ["jacobi", "jacobi-het", "mg", "mg-het", "h1-default", "h1-explicit", "tvd-default", "tvd-explicit", "anderson"]
    + ["w:" + o for o in W_OPTS if not o.startswith("WnB")]
    + ["w-shared", "w-shared-options", "w-amg-options", "cross"]
)


SPLIT_BFS = {"tvd-default", "tvd-explicit", "cross"}  # calls of 0.3 s: one BFS root per first op, on separate workers


def bounds(g, tier):
    """(BFS depth, length of un-deduplicated sequences)."""
    if g.startswith("w"):
        return (4 if tier == "quick" else 6), (3 if tier == "quick" else 4)
    if g == "cross":
        return (2 if tier == "quick" else 3), (2 if tier == "quick" else 3)
    return (4 if tier == "quick" else 6), (2 if tier == "quick" else 3)


# ------------------------------------------------------------- reference model of a call
def model_step(ms, op):
    """Boring model: which coefficients are set on which object.  Returns the table key of
    an observable call (None for update_params)."""
    if op["t"] == "set":
        ms[op["o"]] = {"c": op["c"], "via": "upd"}
        return None
    if op["t"] == "solve":
        key = dict(op)
        key.update(c=ms[op["o"]]["c"], via=ms[op["o"]]["via"])
        return key
    return dict(op)


def slot_of(key):
    t = key["t"]
    if t == "solve" or t == "aa" or t == "w1":
        return key["o"]
    if t == "h1":
        return "default:" + key["f"] if key["s"] == "default" else key["s"]
    if t in ("sbtvd", "tvd"):
        return "default:split_bregman_tvd" if key.get("s", "default") == "default" else key["s"]
    if t == "w1s":
        return "OPTS"
    return None  # w1f: a new object per call


def signature(key):
    """(coefficients handed to the underlying solver, grid spacing, input shape)."""
    t = key["t"]
    if t == "solve":
        return (tuple(key["c"]), key["h"], SHAPES[key["i"]])
    if t == "h1":
        return ((key["om"], key["mu"], key["dim"]), None, SHAPES[key["i"]])
    if t == "sbtvd":
        ell = "array" if key["ad"] else (2 * key["mu"] if key["ell"] is None else key["ell"])
        return ((key["om"], ell, 2), None, SHAPES[key["i"]])
    if t == "tvd":
        return ((key["om"], 1.0, 2), None, SHAPES[key["i"]])
    if t == "aa":
        return ((aa_problem(key["p"])[1].size,), None, None)
    if t in ("w1", "w1f"):
        return ((key["p"],), None, None)
    if t == "w1s":
        return ((key["m"], key["p"]), None, None)
    raise KeyError(t)


def api_of(key):
    t = key["t"]
    if t == "solve":
        return {"J": "jacobi/explicit", "Jt": "jacobi/explicit-tol", "M0": "mg/depth=0", "M1": "mg/depth=1", "M2": "mg/depth=2", "Mh": "mg-heterogeneous/depth=1", "Jh": "jacobi-heterogeneous"}[key["o"]]
    sk = {"default": "default-solver", "Jx": "explicit-jacobi", "Mx": "explicit-mg"}
    if t == "h1":
        return f"{key['f']}/{sk[key['s']]}"
    if t == "sbtvd":
        return f"split_bregman_tvd/{sk[key['s']]}"
    if t == "tvd":
        return "tvd/default-solver"
    if t == "aa":
        return "anderson/" + {"A": "restart=None", "Ar": "restart=3", "At": "tensor"}[key["o"]]
    if t == "w1":
        return "wasserstein/" + key["o"]
    if t == "w1s":
        return "wasserstein/shared-options-dict/" + key["m"]
    return "wasserstein/function-" + key["m"]


def history_class(prev_keys, key):
    """A-priori class of a call from the coordinates of the calls before it."""
    slot = slot_of(key)
    mine = [k for k in prev_keys if slot is not None and slot_of(k) == slot]
    if not mine:
        return "first-use-of-object"
    sig = signature(key)
    sigs = [signature(k) for k in mine]
    word = {"aa": "dimension", "w1": "pair", "w1s": "method-or-pair"}.get(key["t"], "coefficients")
    if any(s[0] != sig[0] for s in sigs):
        return f"{word}-changed"
    if any(s[1] != sig[1] for s in sigs):
        return "h-changed"
    if any(s[2] != sig[2] for s in sigs):
        return "shape-changed"
    return f"same-{word}"


def cell_of(prev_keys, key):
    return f"C16/{api_of(key)}/{history_class(prev_keys, key)}"


def all_keys(g, tier):
    """Every table row a group can ask for: BFS over the (finite) model alone."""
    objs, ops, _ = group_spec(g, tier)
    ms0 = initial_model(objs)
    seen = {json.dumps(ms0, sort_keys=True)}
    todo = [ms0]
    keys = {}
    while todo:
        ms = todo.pop()
        for op in ops:
            m2 = copy.deepcopy(ms)
            k = model_step(m2, op)
            if k is not None:
                keys[key_id(k)] = k
            s = json.dumps(m2, sort_keys=True)
            if s not in seen:
                seen.add(s)
                todo.append(m2)
    return keys


# ============================================================== executing a call for real
def _arr(x):
    return np.array(x, dtype=float)


def exec_call(world, key):
    """The observable call itself; identical code on explored paths and in table processes."""
    import darsia

    t = key["t"]
    if t == "solve":
        o = world[key["o"]]
        x0, rhs = make_input(key["i"]), make_rhs(key["i"])
        out = o(x0, rhs) if key["h"] is None else o(x0, rhs, h=float(key["h"]))
        return [_arr(out)]
    if t == "h1":
        import darsia.restoration.h1_regularization as H1

        kw = dict(mu=key["mu"], omega=key["om"], dim=key["dim"])
        if key.get("sp"):
            cast = getattr(np, key["sp"])
            kw.update(mu=cast(key["mu"]), omega=cast(key["om"]))
        if key["s"] != "default":
            kw["solver"] = world[key["s"]]
        out = getattr(H1, key["f"])(make_input(key["i"]), **kw)
        return [_arr(out.img if isinstance(out, darsia.Image) else out)]
    if t == "sbtvd":
        kw = dict(mu=key["mu"], omega=key["om"], ell=key["ell"], dim=2, max_num_iter=3, eps=None, isotropic=key["iso"])
        if key["s"] != "default":
            kw["solver"] = world[key["s"]]
        if key["ad"]:
            kw["adaptive"] = _tvd_adaptive
        return [_arr(darsia.split_bregman_tvd(make_input(key["i"]), **kw))]
    if t == "tvd":
        out = darsia.tvd(make_input(key["i"]), method="heterogeneous bregman", weight=key["w"], max_num_iter=3, eps=1e-12, omega=key["om"])
        return [_arr(out.img if isinstance(out, darsia.Image) else out)]
    if t == "aa":
        o = world[key["o"]]
        M, b = aa_problem(key["p"])
        x = np.zeros_like(b)
        tensor = key["o"] == "At"
        outs = []
        for k in range(key["s"], key["s"] + key["n"]):
            g = M @ x + b
            f = g - x
            if tensor:
                x = np.ravel(_arr(o(g.reshape(2, 3).copy(), f.reshape(2, 3).copy(), k)))
            else:
                x = _arr(o(g.copy(), f.copy(), k))
            outs.append(x.copy())
        return [np.stack(outs)]
    if t == "w1":
        if key["o"].startswith("WnB"):
            from mc import env

            env.reseed(0)  # pyamg draws from NumPy's global generator when it builds a hierarchy
        d, info = world[key["o"]](*w_pair(key["p"]))
        return [_arr(d), _arr(info["flux"]), _arr(info["pressure"]), _arr(info["transport_density"])]
    if t == "w1s":
        if "grid" not in world:
            world["grid"] = darsia.generate_grid(w_pair("P1")[0])
        cls = darsia.WassersteinDistanceNewton if key["m"] == "newton" else darsia.WassersteinDistanceBregman
        d, info = cls(world["grid"], None, world["OPTS"])(*w_pair(key["p"]))
        return [_arr(d), _arr(info["flux"]), _arr(info["pressure"]), _arr(info["transport_density"])]
    if t == "w1f":
        opts = {"newton": {"L": 1e2}, "bregman": {"L": 1.0}}[key["m"]]
        opts.update(num_iter=W_ITER, return_info=True)
        d, info = darsia.wasserstein_distance(*w_pair(key["p"]), method=key["m"], options=opts)
        return [_arr(d), _arr(info["flux"]), _arr(info["pressure"]), _arr(info["transport_density"])]
    raise KeyError(t)


def apply_set(world, op):
    o = world[op["o"]]
    o.update_params(mass_coeff=coef_value(op["c"][0]), diffusion_coeff=coef_value(op["c"][1]))


def observe(fn):
    """Run a library call; an exception is an observation to be compared, not silence."""
    try:
        return fn()
    except Exception as e:  # compared with the table row: must be the same behaviour
        return ("raises", type(e).__name__, str(e)[:200])


def fresh_run(key):
    """The call as the first darsia call of this interpreter."""
    world, shared = {}, {}
    slot = key.get("o") or (key.get("s") if key.get("s", "default") != "default" else None)
    if slot:
        world[slot] = make_object(slot, shared)
    if key["t"] == "w1s":
        world["OPTS"] = make_object("OPTS", shared)  # pristine caller-owned options dict
    if key["t"] == "solve" and key["via"] == "upd":
        apply_set(world, {"o": key["o"], "c": key["c"]})
    return observe(lambda: exec_call(world, key))


# ========================================================================== oracle table
def key_id(key):
    return hashlib.blake2b(json.dumps(key, sort_keys=True).encode(), digest_size=10).hexdigest()


def table_dir(sub="fork"):
    from mc import env

    d = os.path.join(env.scratch_dir(), "c16-table-" + sub)
    os.makedirs(d, exist_ok=True)
    return d


def _save(path, res):
    tmp = path + f".tmp{os.getpid()}.npz"
    if isinstance(res, tuple):
        np.savez(tmp, meta=np.array(json.dumps({"raises": list(res[1:])})))
    else:
        np.savez(tmp, meta=np.array(json.dumps({"n": len(res)})), **{f"a{k}": a for k, a in enumerate(res)})
    os.replace(tmp, path)


def _load(path):
    with np.load(path, allow_pickle=False) as z:
        meta = json.loads(str(z["meta"]))
        if "raises" in meta:
            return ("raises",) + tuple(meta["raises"])
        return [z[f"a{k}"] for k in range(meta["n"])]


def oracle_main():
    """python -c 'import props.c16 as m; m.oracle_main()' <key json> <out path> : new interpreter."""
    from mc import env

    env.setup()
    key = json.loads(sys.argv[1])
    with env.quiet():
        res = fresh_run(key)
    _save(sys.argv[2], res)


def zygote_main():
    """Imports darsia, executes nothing, forks one child per table row."""
    from mc import env

    env.setup()
    keys = json.load(open(sys.argv[1]))
    out_dir, jobs = sys.argv[2], int(sys.argv[3])
    live = 0
    failed = 0

    def reap():
        nonlocal live, failed
        _, st = os.wait()
        live -= 1
        if st != 0:
            failed += 1

    for key in keys:
        while live >= jobs:
            reap()
        pid = os.fork()
        if pid == 0:
            code = 1
            try:
                with env.quiet():
                    res = fresh_run(key)
                _save(os.path.join(out_dir, key_id(key) + ".npz"), res)
                code = 0
            finally:
                os._exit(code)
        live += 1
    while live:
        reap()
    sys.exit(1 if failed else 0)


def _spawn(code, *args):
    return subprocess.run([sys.executable, "-W", "ignore", "-c", code, *args], cwd=HOME, env=dict(os.environ), capture_output=True, text=True, timeout=1800)


def compute_in_new_interpreter(key, path):
    p = _spawn("import props.c16 as m; m.oracle_main()", json.dumps(key), path)
    if p.returncode != 0 or not os.path.exists(path):
        raise RuntimeError(f"C16 oracle process failed for {key}: {p.stderr[-800:]}")


_MEMO: dict = {}


def table(key):
    """Value of the call issued first in its own interpreter (memo -> file -> compute)."""
    kid = key_id(key)
    if kid in _MEMO:
        return _MEMO[kid]
    path = os.path.join(table_dir("fork"), kid + ".npz")
    if not os.path.exists(path):
        # replay / debugging path: a genuinely new interpreter, serialised by a lock file
        lock = path + ".lock"
        try:
            fd = os.open(lock, os.O_CREAT | os.O_EXCL | os.O_WRONLY)
            os.close(fd)
            try:
                compute_in_new_interpreter(key, path)
            finally:
                os.remove(lock)
        except FileExistsError:
            t0 = time.time()
            while not os.path.exists(path):
                if time.time() - t0 > 900:
                    raise RuntimeError(f"C16 oracle row never appeared: {key}")
                time.sleep(0.05)
    _MEMO[kid] = _load(path)
    return _MEMO[kid]


def same_result(a, b, tol=0.0):
    if isinstance(a, tuple) or isinstance(b, tuple):
        return isinstance(a, tuple) and isinstance(b, tuple) and a[1] == b[1]
    if len(a) != len(b):
        return False
    for x, y in zip(a, b):
        if x.shape != y.shape:
            return False
        if tol == 0.0:
            if not np.array_equal(x, y, equal_nan=True):
                return False
        else:
            scale = max(1.0, float(np.max(np.abs(y))) if y.size else 1.0)
            if not np.all((np.abs(x - y) <= tol * scale) | (np.isnan(x) & np.isnan(y))):
                return False
    return True


def build_rows(keys, validate, jobs):
    """Compute table rows (dict id -> key) in forks of one zygote; ``validate`` rows also in new interpreters."""
    from concurrent.futures import ThreadPoolExecutor

    fork_dir, new_dir = table_dir("fork"), table_dir("new")
    todo = [k for kid, k in sorted(keys.items()) if not os.path.exists(os.path.join(fork_dir, kid + ".npz"))]
    validate = {kid: k for kid, k in validate.items() if not os.path.exists(os.path.join(new_dir, kid + ".npz"))}
    zy = None
    if todo:
        kf = os.path.join(fork_dir, f"keys-{os.getpid()}.json")
        with open(kf, "w") as f:
            json.dump(todo, f)
        errp = os.path.join(fork_dir, f"zygote-{os.getpid()}.stderr")
        zy_err = open(errp, "w")
        zy = subprocess.Popen(
            [sys.executable, "-W", "ignore", "-c", "import props.c16 as m; m.zygote_main()", kf, fork_dir, str(jobs)],
            cwd=HOME, env=dict(os.environ), stdout=subprocess.DEVNULL, stderr=zy_err,
        )
    with ThreadPoolExecutor(max_workers=jobs) as ex:
        list(ex.map(lambda kv: compute_in_new_interpreter(kv[1], os.path.join(new_dir, kv[0] + ".npz")), sorted(validate.items())))
    if zy is not None:
        zy.wait(timeout=3600)
        zy_err.close()
        if zy.returncode != 0:
            raise RuntimeError(f"C16 zygote failed: {open(errp).read()[-1500:]}")
    missing = [k for kid, k in keys.items() if not os.path.exists(os.path.join(fork_dir, kid + ".npz"))]
    if missing:
        raise RuntimeError(f"C16 oracle table incomplete: {missing[:3]}")
    bad = []
    for kid, k in sorted(validate.items()):
        if not same_result(_load(os.path.join(fork_dir, kid + ".npz")), _load(os.path.join(new_dir, kid + ".npz"))):
            bad.append(k)
    if bad:
        raise RuntimeError(f"C16 oracle table not reproducible across interpreters (harness assumption broken): {bad[:3]}")
    return len(validate)


def build_table(tier):
    """All rows of all groups; a subset (quick) / all (thorough) also in genuinely new interpreters."""
    keys = {}
    per_group = {}
    for g in GROUPS:
        ks = all_keys(g, tier)
        per_group[g] = ks
        keys.update(ks)
    jobs = int(os.environ.get("VERIF_JOBS", "0") or 0) or min(16, os.cpu_count() or 1)
    if tier == "thorough":
        validate = dict(keys)
    else:  # one row of every group (every kind of call, every distance object)
        validate = {}
        for g, ks in per_group.items():
            if g not in ("w-shared", "cross"):
                kid = sorted(ks)[0]
                validate[kid] = ks[kid]
    t0 = time.time()
    nval = build_rows(keys, validate, jobs)
    return {"rows": len(keys), "validated_in_new_interpreters": nval, "seconds": round(time.time() - t0, 1)}


def ensure_rows(g, tier):
    """Replay / debugging path: the rows of one group, if the run did not pre-build the table."""
    keys = all_keys(g, tier)
    if any(key_id(k) not in _MEMO and not os.path.exists(os.path.join(table_dir("fork"), key_id(k) + ".npz")) for k in keys.values()):
        build_rows(keys, {}, min(8, os.cpu_count() or 1))


# ==================================================================== hidden-state roots
class Hidden:
    """Module-level default instances, class data and module data of the anchored modules."""

    def __init__(self):
        import importlib

        self.defaults = {}
        self.classes = []
        self.modules = []
        self._skip = {}  # names that held code (not data) at import: not rescanned on every transition
        self._frozen = False
        for name in ANCHOR_MODULES:
            mod = importlib.import_module(name)
            self.modules.append(mod)
            for attr, val in sorted(vars(mod).items()):
                if isinstance(val, types.FunctionType) and val.__module__ == name:
                    self._scan_function(f"{name.split('.')[-1]}.{attr}", val)
                elif isinstance(val, type) and val.__module__ == name:
                    import enum

                    if issubclass(val, enum.Enum):
                        continue
                    self.classes.append(val)
                    for m, fn in sorted(vars(val).items()):
                        fn = getattr(fn, "__func__", fn)
                        if isinstance(fn, types.FunctionType):
                            self._scan_function(f"{name.split('.')[-1]}.{attr}.{m}", fn)
        self.pristine = self.capture()
        self._frozen = True

    def _scan_function(self, label, fn):
        vals = list(fn.__defaults__ or ()) + list((fn.__kwdefaults__ or {}).values())
        for k, v in enumerate(vals):
            if hasattr(v, "__dict__") and not isinstance(v, (type, types.FunctionType, types.ModuleType)):
                self.defaults[f"{label}#{k}"] = v
            elif isinstance(v, (dict, list, set)):
                self.defaults[f"{label}#{k}"] = v

    def _class_data(self, cls):
        """Non-callable class attributes; names that were code at import are skipped cheaply."""
        skip = self._skip.setdefault(cls, set())
        out = {}
        for k in vars(cls).keys() - skip:
            v = vars(cls)[k]
            if k.startswith("__") or k.startswith("_abc") or callable(v) or isinstance(
                v, (property, staticmethod, classmethod, types.MemberDescriptorType, types.GetSetDescriptorType)
            ):
                if not self._frozen:
                    skip.add(k)
                continue
            out[k] = v
        return out

    def _module_data(self, mod):
        """Module globals that are data (containers, numbers, darsia instances)."""
        skip = self._skip.setdefault(mod, set())
        out = {}
        for k in vars(mod).keys() - skip:
            v = vars(mod)[k]
            if not k.startswith("__") and (
                isinstance(v, (list, dict, set, np.ndarray, int, float, str, tuple))
                or (hasattr(v, "__dict__") and type(v).__module__.startswith("darsia") and not isinstance(v, (type, types.FunctionType, types.ModuleType)))
            ):
                out[k] = v
            elif not self._frozen:
                skip.add(k)
        return out

    def view(self):
        """Live content (for hashing)."""
        return [
            {k: (vars(v) if hasattr(v, "__dict__") else v) for k, v in self.defaults.items()},
            [self._class_data(c) for c in self.classes],
            [self._module_data(m) for m in self.modules],
        ]

    def capture(self):
        return copy.deepcopy(self.view())

    def restore(self, snap):
        d, cd, md = copy.deepcopy(snap)
        for k, inst in self.defaults.items():
            if hasattr(inst, "__dict__"):
                inst.__dict__.clear()
                inst.__dict__.update(d[k])
            elif isinstance(inst, dict):
                inst.clear()
                inst.update(d[k])
            elif isinstance(inst, list):
                inst[:] = d[k]
            elif isinstance(inst, set):
                inst.clear()
                inst.update(d[k])
        for cls, data in zip(self.classes, cd):
            for k in list(self._class_data(cls)):
                if k not in data:
                    delattr(cls, k)
            for k, v in data.items():
                setattr(cls, k, v)
        for mod, data in zip(self.modules, md):
            for k in list(self._module_data(mod)):
                if k not in data:
                    delattr(mod, k)
            for k, v in data.items():
                setattr(mod, k, v)


_HIDDEN = None


def worker_init():
    """Once per process, before any darsia call of the harness: remember the pristine state."""
    global _HIDDEN
    if _HIDDEN is None:
        _HIDDEN = Hidden()


# ============================================================================== explorer
class Explorer:
    def __init__(self, group, tier, r):
        self.g, self.tier, self.r = group, tier, r
        self.objs, self.ops, self.mode = group_spec(group, tier)
        worker_init()
        ensure_rows(group, tier)

    # ---- state handling
    def fresh(self):
        _HIDDEN.restore(_HIDDEN.pristine)
        shared = {}
        world = {o: make_object(o, shared) for o in self.objs}
        return {"world": world, "ms": initial_model(self.objs), "keys": []}

    def snapshot(self, st):
        if self.mode == "replay":
            return None
        return (copy.deepcopy(st["world"]), _HIDDEN.capture(), copy.deepcopy(st["ms"]), list(st["keys"]))

    def rebuild(self, snap, hist):
        if snap is not None:
            world, hid, ms, keys = snap
            _HIDDEN.restore(hid)
            return {"world": copy.deepcopy(world), "ms": copy.deepcopy(ms), "keys": list(keys)}
        st = self.fresh()
        for op in hist:
            self.step(st, op, hist=None)
        return st

    def canon(self, st):
        return digest([st["world"], _HIDDEN.view(), st["ms"]])

    # ---- one transition on the real objects, checked against the table
    def step(self, st, op, hist):
        key = model_step(st["ms"], op)
        if key is None:
            apply_set(st["world"], op)
            return
        got = observe(lambda: exec_call(st["world"], key))
        if hist is not None:  # hist None = silent replay of an already checked prefix
            want = table(key)
            tol = 1e-12 if (key["t"] == "w1" and W_OPTS[key["o"]][1]["linear_solver"] == "amg") else 0.0
            ok = same_result(got, want, tol)
            r = self.r
            if not ok:
                detail = dict(group=self.g, history=hist + [op], call=key)
                if isinstance(got, tuple) or isinstance(want, tuple):
                    detail.update(got=repr(got)[:300], want_first_call_in_fresh_interpreter=repr(want if isinstance(want, tuple) else "arrays")[:300])
                else:
                    k = next((k for k in range(len(want)) if got[k].shape != want[k].shape or not np.array_equal(got[k], want[k], equal_nan=True)), 0)
                    if got[k].shape == want[k].shape:
                        detail.update(output=k, max_abs_difference=float(np.nanmax(np.abs(got[k] - want[k]))), got=got[k], want_first_call_in_fresh_interpreter=want[k])
                    else:
                        detail.update(output=k, got_shape=got[k].shape, want_shape=want[k].shape)
                r.fail(cell_of(st["keys"], key), "a call returns what the same call returns when issued first in a fresh interpreter", **detail)
            else:
                r.ok()
            if len(hist) >= 1:
                r.nontriv((self.g, hist + [op]))
            r.outcome(digest(list(got) if not isinstance(got, tuple) else got[:2]))
        st["keys"].append(key)

    # ---- BFS with de-duplication from the state after the first op
    def bfs(self, first, depth):
        """first = index of the first op (expensive groups are split over workers), or None = from the root."""
        r = self.r
        st = self.fresh()
        seen = {self.canon(st)}
        transitions = 0
        if first is None:
            h0 = []
        else:
            h0 = [self.ops[first]]
            self.step(st, self.ops[first], hist=[])
            seen.add(self.canon(st))
            transitions = 1
        frontier = collections.deque([(h0, self.snapshot(st))])
        fixpoint = True
        while frontier:
            hist, snap = frontier.popleft()
            for op in self.ops:
                st = self.rebuild(snap, hist)
                self.step(st, op, hist=hist)
                transitions += 1
                k = self.canon(st)
                if k not in seen:
                    seen.add(k)
                    if len(hist) + 1 < depth:
                        frontier.append((hist + [op], self.snapshot(st)))
                    else:
                        fixpoint = False
        r.count("states", len(seen))
        r.count("transitions", transitions)
        r.count("traces", transitions)
        r.count("bfs_fixpoint_roots" if fixpoint else "bfs_depth_bounded_roots", 1)
        return len(seen), fixpoint

    # ---- every sequence (no de-duplication) that starts with the first op
    def sequences(self, first, maxlen):
        r = self.r
        n = 0

        def rec(hist, snap):
            nonlocal n
            for op in self.ops:
                st = self.rebuild(snap, hist)
                self.step(st, op, hist=hist)
                n += 1
                if len(hist) + 1 < maxlen:
                    rec(hist + [op], self.snapshot(st))

        st = self.fresh()
        self.step(st, self.ops[first], hist=[])
        n += 1
        if maxlen > 1:
            rec([self.ops[first]], self.snapshot(st))
        r.count("sequences_calls", n)
        r.count("transitions", n)
        r.count("traces", n)
        return n


# ============================================================================ interface
def describe(tier):
    return {
        "groups": {g: {"alphabet": len(group_spec(g, tier)[1]), "bfs_depth": bounds(g, tier)[0], "undeduplicated_length": bounds(g, tier)[1]} for g in GROUPS},
        "oracle_table": _TABLE_INFO or "built lazily",
    }


_TABLE_INFO: dict = {}


def cases(tier):
    if not os.environ.get("C16_LAZY_TABLE"):
        _TABLE_INFO.update(build_table(tier))
    out = []
    for g in GROUPS:
        _, ops, _ = group_spec(g, tier)
        depth, slen = bounds(g, tier)
        if g in SPLIT_BFS:
            for i in range(len(ops)):
                out.append({"kind": "bfs", "group": g, "first": i, "depth": depth, "tier": tier})
        else:
            out.append({"kind": "bfs", "group": g, "first": None, "depth": depth, "tier": tier})
        for i in range(len(ops)):
            out.append({"kind": "seq", "group": g, "first": i, "len": slen, "tier": tier})
    return out


def run_case(case, r):
    ex = Explorer(case["group"], case["tier"], r)
    try:
        if case["kind"] == "bfs":
            n, fix = ex.bfs(case["first"], case["depth"])
            r.notes.setdefault("samples", [{"group": case["group"], "first_op": None if case["first"] is None else ex.ops[case["first"]], "hidden_states": n, "fixpoint": fix}])
        else:
            ex.sequences(case["first"], case["len"])
    finally:
        _HIDDEN.restore(_HIDDEN.pristine)


def crash_cell(case, exc, where):
    return f"C16/crash/{case.get('group')}/{type(exc).__name__}@{where}"
