"""C03 — geometric integration: weighted voxel sum at any resolution and history.

Part A (lattice): geometry kinds x weight forms x shapes x containers x payloads x
resolutions; integrate is linear in the data, so the complete impulse basis (+ linear
combinations) decides the value for every data array of that shape.
Part B (E-state): one geometry object, calls at {native, coarser, finer, other-coarser}
resolution as array or Image; BFS with full-content hashing of the geometry to a
fixpoint plus all un-deduplicated call sequences up to a length; every return value is
compared with the same call on a freshly built geometry.
"""

from __future__ import annotations

import collections
import copy
import itertools

import numpy as np

from mc.canon import digest
from mc.state import sequences

ID = "C03"
LEVEL = "model_checking"
EXHAUSTIVE = True
RULE = (
    "A: {Geometry, Weighted, Extruded, Porous, ExtrudedPorous} x weight forms {scalar, ndarray, (Image for ExtrudedPorous: all 3x3 "
    "porosity/depth type pairs)} x shapes (1-D..3-D) x data container {ndarray, Fortran-ordered ndarray, Image with the geometry's dimensions, Image with default dimensions} x payload {scalar, vector, series, vector series} x "
    "resolution {native, refined by every (fx,fy,..) in {1,2,3}^d, coarsened by every divisor tuple, mixed (each axis refined by 2 or 3, coarsened by a divisor, or kept; at least one of each)}; data = complete impulse basis + "
    "pair combinations (1,1),(2,-3); plus normalize(img, ref). B: per geometry object every sequence of integrate() calls over "
    "{native, coarser, finer, other-coarser} x {array, Image} up to length 3 (thorough 5), and BFS over the geometry's hidden state to a "
    "fixpoint. Non-trivial = integrate call with non-zero data; distinct = distinct (geometry, weights, shape, payload, resolution) / "
    "distinct call sequence."
)
ASSUMPTIONS = ["dyadic voxel sizes and weights; tolerance 1e-12 relative (factor-3 scalings are not dyadic); 1e-6 where array weights are area-resampled by OpenCV (float32 coefficients)", "array weights at foreign resolution only in 2-D (API restriction)"]

SHAPES = [(2,), (4,), (2, 2), (2, 4), (4, 6), (2, 2, 2), (2, 1, 3)]
VS = [0.5, 2.0, 0.25]
RTOL = 1e-12


def describe(tier):
    return {"shapes": SHAPES, "refine_factors": [1, 2, 3], "history_length": 3 if tier == "quick" else 5}


def wpattern(shape, k=0):
    """Dyadic weights in {1/4..4} without the translational symmetry that would let
    block averages of the weights integrate smooth data correctly by coincidence."""
    w = np.zeros(shape)
    for idx in np.ndindex(*shape):
        i = idx[0]
        j = idx[1] if len(idx) > 1 else 0
        l = idx[2] if len(idx) > 2 else 0
        w[idx] = 2.0 ** ((i * i + 3 * j + 5 * l * l + i * j + j * l + k) % 5 - 2)
    return w


GEOMS = [
    ("Geometry", None),
    ("WeightedGeometry", "scalar"),
    ("WeightedGeometry", "ndarray"),
    ("ExtrudedGeometry", "scalar"),
    ("ExtrudedGeometry", "ndarray"),
    ("PorousGeometry", "scalar"),
    ("PorousGeometry", "ndarray"),
] + [("ExtrudedPorousGeometry", f"{p}+{d}") for p in ("scalar", "ndarray", "Image") for d in ("scalar", "ndarray", "Image")]


def cases(tier):
    out = []
    for shape in SHAPES:
        for g, wf in GEOMS:
            for payload in ("scalar", "vector", "series", "vector-series"):
                out.append({"kind": "integrate", "geom": g, "wform": wf, "shape": list(shape), "payload": payload})
    for shape in [(4,), (4, 6), (2, 4, 2)]:
        for g, wf in GEOMS:
            out.append({"kind": "history", "geom": g, "wform": wf, "shape": list(shape), "len": 3 if tier == "quick" else 5})
    for shape in [(4,), (2, 4), (2, 2, 2)]:
        for g, wf in [("Geometry", None), ("WeightedGeometry", "ndarray"), ("ExtrudedPorousGeometry", "Image+scalar")]:
            for payload in ("scalar", "vector", "series", "vector-series"):
                for scale in (0, -10, -20):  # voxel sizes x 2^scale: metre-, millimetre- and micrometre-sized samples
                    out.append({"kind": "normalize", "geom": g, "wform": wf, "shape": list(shape), "payload": payload, "scale": scale})
                for dt in ("float32", "uint8", "uint8->astype(float)"):
                    out.append({"kind": "normalize", "geom": g, "wform": wf, "shape": list(shape), "payload": payload, "scale": 0, "dtype": dt})
    out.sort(key=lambda c: (c["kind"] != "integrate", int(np.prod(c["shape"])), len(c["shape"])))
    return out


def make_geometry(gname, wform, shape, scale=0):
    """Returns (geometry factory, reference effective volume per native voxel)."""
    import darsia

    dim = len(shape)
    vs = [v * 2.0**scale for v in VS[:dim]]
    vol = float(np.prod(vs))
    # num_voxels may be the full shape of a data array with trailing time / colour axes
    # (documented: only the first space_dim entries count); the longer form is used throughout
    meta = dict(space_dim=dim, num_voxels=list(shape) + [3, 2], voxel_size=list(vs))
    meta_dims = dict(space_dim=dim, num_voxels=tuple(shape), dimensions=[vs[a] * shape[a] for a in range(dim)])

    # caller-owned weight containers: created ONCE and handed to every construction of this
    # geometry (a user builds several geometries from the same porosity map); the reference
    # keeps private copies
    shared = {}

    def form(kind, k):
        if kind == "scalar":
            return 0.5 if k == 0 else 4.0, (0.5 if k == 0 else 4.0) * np.ones(shape)
        arr = wpattern(shape, k)
        if (kind, k) not in shared:
            if kind == "ndarray":
                shared[(kind, k)] = arr.copy()
            else:
                shared[(kind, k)] = darsia.Image(arr.copy(), space_dim=dim, dimensions=[vs[a] * shape[a] for a in range(dim)], scalar=True)
        return shared[(kind, k)], arr

    if gname == "Geometry":
        flip = [0]

        def plain():
            flip[0] += 1
            return darsia.Geometry(**(meta if flip[0] % 2 else dict(meta_dims, num_voxels=tuple(shape) + (3,))))

        return plain, vol * np.ones(shape)
    if gname == "ExtrudedPorousGeometry":
        pk, dk = wform.split("+")
        _, pref = form(pk, 0)
        _, dref = form(dk, 1)
        return (lambda: darsia.ExtrudedPorousGeometry(form(pk, 0)[0], form(dk, 1)[0], **meta)), vol * pref * dref
    cls = getattr(darsia, gname)
    _, wref = form(wform, 0)
    return (lambda: cls(form(wform, 0)[0], **meta)), vol * wref


def payload_shape(payload):
    return {"scalar": (), "vector": (2,), "series": (3,), "vector-series": (3, 2)}[payload]


def wrap(arr, shape_native, payload, as_image, scale=0):
    """Hand the data to integrate() as a raw array or as an Image at its own resolution."""
    if not as_image:
        return arr
    if as_image == "F":
        # the same logical array stored column-major (what a transposed view or Fortran-ordered
        # reader hands over)
        return np.asfortranarray(arr)
    import darsia

    dim = len(shape_native)
    kw = dict(space_dim=dim, dimensions=[VS[a] * 2.0**scale * shape_native[a] for a in range(dim)], scalar=payload in ("scalar", "series"))
    if as_image == "default-dims":
        # an Image wrapped around the array without physical dimensions (darsia's defaults): the
        # geometry, not the image, defines the physical extent
        del kw["dimensions"]
    if payload in ("series", "vector-series"):
        kw["series"] = True
        kw["time"] = [0.0, 1.0, 2.0]
    return darsia.Image(arr, **kw)


def refine(a, factors):
    for ax, f in enumerate(factors):
        a = np.repeat(a, f, axis=ax)
    return a


def block_sum(a, factors):
    """Sum native-resolution array over blocks of the given coarsening factors."""
    dim = len(factors)
    shp = []
    for ax in range(dim):
        shp += [a.shape[ax] // factors[ax], factors[ax]]
    return a.reshape(shp).sum(axis=tuple(range(1, 2 * dim, 2)))


def divisor_tuples(shape):
    divs = [[f for f in range(1, n + 1) if n % f == 0] for n in shape]
    return [t for t in itertools.product(*divs)]


RTOL_RESAMPLED = 1e-6  # OpenCV's area resampling of array weights works with float32 coefficients


def close(a, b, rtol=RTOL):
    a, b = np.asarray(a, dtype=float), np.asarray(b, dtype=float)
    if a.shape != b.shape:
        return False
    scale = max(1.0, float(np.max(np.abs(b))) if b.size else 1.0)
    return bool(np.all(np.abs(a - b) <= rtol * scale))


def wclass(wform):
    if wform is None:
        return "plain"
    return "array-weight" if ("ndarray" in wform or "Image" in wform) else "scalar-weight"


def run_integrate(case, r):
    gname, wform, shape, payload = case["geom"], case["wform"], tuple(case["shape"]), case["payload"]
    dim = len(shape)
    fresh, effvol = make_geometry(gname, wform, shape)
    ps = payload_shape(payload)
    array_weight = wclass(wform) == "array-weight"

    # resolutions: ("native",), ("fine", factors), ("coarse", factors)
    resolutions = [("native", tuple([1] * dim))]
    for f in itertools.product((1, 2, 3), repeat=dim):
        if any(x > 1 for x in f):
            resolutions.append(("fine", f))
    for f in divisor_tuples(shape):
        if any(x > 1 for x in f):
            resolutions.append(("coarse", f))
    # mixed: every axis either refined (2, 3) or coarsened (a divisor), at least one of each;
    # a factor is written +f for refinement and -f for coarsening
    if dim >= 2:
        per_axis = [[f for f in (2, 3)] + [-f for f in range(2, n + 1) if n % f == 0] + [1] for n in shape]
        for f in itertools.product(*per_axis):
            if any(x > 1 for x in f) and any(x < 0 for x in f):
                resolutions.append(("mixed", f))
    for res, fac in resolutions:
        if res == "mixed":
            up = tuple(max(x, 1) for x in fac)
            down = tuple(-x if x < 0 else 1 for x in fac)
        if res != "native" and array_weight and dim != 2:
            # documented restriction: must be refused, consistently, with ValueError
            g = fresh()
            dshape = tuple(shape[a] * fac[a] for a in range(dim)) if res == "fine" else (tuple(shape[a] // fac[a] for a in range(dim)) if res == "coarse" else tuple(shape[a] * up[a] // down[a] for a in range(dim)))
            try:
                g.integrate(np.ones(dshape + ps))
                r.fail(f"C03/integrate/{wclass(wform)}/foreign-resolution-refusal/dim={dim}", "array weights at a foreign resolution are documented as 2-D only (ValueError)")
            except ValueError:
                r.ok()
                # a refused call is not a call: the object still integrates native data like a fresh one
                xn = (1.0 + (np.arange(int(np.prod(shape + ps))) % 5)).reshape(shape + ps)
                got_n, want_n = g.integrate(xn.copy()), fresh().integrate(xn.copy())
                r.check(close(got_n, want_n), f"C03/history/{wclass(wform)}/after-refused-call/dim={dim}", "after a refused (ValueError) call at a foreign resolution the geometry integrates native data as a fresh object does", factors=fac, res=res, got=got_n, want=want_n, geom=gname)
            continue
        if res == "fine":
            dshape = tuple(shape[a] * fac[a] for a in range(dim))
            # effective volume of each fine voxel
            ev = refine(effvol, fac) / float(np.prod(fac))
        elif res == "coarse":
            dshape = tuple(shape[a] // fac[a] for a in range(dim))
            ev = block_sum(effvol, fac)
        elif res == "mixed":
            dshape = tuple(shape[a] * up[a] // down[a] for a in range(dim))
            ev = block_sum(refine(effvol, up) / float(np.prod(up)), down)
        else:
            dshape, ev = shape, effvol
        full = dshape + ps
        n = int(np.prod(full))
        cellbase = f"C03/integrate/{wclass(wform)}/{res}/payload={payload}"
        rtol = RTOL_RESAMPLED if (array_weight and res != "native") else RTOL
        for as_image in (False, True, "default-dims", "F"):
            g = fresh()
            okb, okl, bad = True, True, None
            vals = {}
            # impulse basis: cap the number of spatial impulses for big refinements, never the payload slots
            idxs = list(np.ndindex(*full))
            for idx in idxs:
                e = np.zeros(full)
                e[idx] = 1.0
                got = g.integrate(wrap(e, shape, payload, as_image))
                want = np.zeros(ps)
                if ps:
                    want[idx[dim:]] = ev[idx[:dim]]
                else:
                    want = ev[idx[:dim]]
                vals[idx] = want
                if not close(got, want, rtol):
                    okb, bad = False, (idx, got, want)
                    break
            r.check(okb, cellbase + {False: "/ndarray", True: "/Image", "default-dims": "/Image-default-dims", "F": "/ndarray-F"}[as_image], "integrate(e_voxel) = effective voxel volume (voxel volume x depth/porosity weight) in the slot of its time step and component", shape=shape, factors=fac, geom=gname, wform=wform, index=None if bad is None else bad[0], got=None if bad is None else bad[1], want=None if bad is None else bad[2])
            if okb and n >= 2:
                for k in range(len(idxs)):
                    i, j = idxs[k], idxs[(k + 1) % len(idxs)]
                    for a, b in ((1.0, 1.0), (2.0, -3.0)):
                        x = np.zeros(full)
                        x[i] += a
                        x[j] += b
                        got = g.integrate(wrap(x, shape, payload, as_image))
                        want = a * np.asarray(vals[i]) + b * np.asarray(vals[j])
                        if not close(got, want, rtol):
                            okl = False
                            break
                    if not okl:
                        break
                r.check(okl, cellbase + "/linearity", "integrate is additive and homogeneous in the data", shape=shape, factors=fac, geom=gname)
            # the same kind of data stored as integers / booleans (counts, labels, masks): the integral is
            # the weighted sum of the VALUES, per time step and component, whatever the storage type
            if as_image in (False, True):
                k_ = np.arange(n).reshape(full)
                for dt_, vals_ in (("uint8", (k_ * 7 + 3) % 11), ("int32", (k_ * 5) % 7 - 3), ("bool", (k_ * 3 + k_ // 2) % 3 == 0)):
                    xd = vals_.astype(dt_)
                    want_d = np.zeros(ps) if ps else 0.0
                    evb = ev.reshape(ev.shape + (1,) * len(ps))
                    want_d = np.sum((evb * xd.astype(float)).reshape((-1,) + ps), axis=0) if ps else float(np.sum(ev * xd.astype(float)))
                    try:
                        got_d = g.integrate(wrap(xd.copy(), shape, payload, as_image))
                        r.check(close(got_d, want_d, max(rtol, 1e-12)), cellbase + "/integer-or-bool-data", "integer- and boolean-typed data integrate to the weighted sum of their values in the slot of each time step and component", dtype=dt_, container="Image" if as_image else "ndarray", shape=shape, factors=fac, geom=gname, got=got_d, want=want_d)
                    except Exception as e:  # noqa: BLE001
                        r.fail(cellbase + "/integer-or-bool-data", "integer- and boolean-typed data can be integrated", dtype=dt_, container="Image" if as_image else "ndarray", exception=repr(e)[:300], geom=gname, wform=wform)
            r.nontriv((gname, wform, shape, payload, res, fac, as_image))
    r.outcome((gname, wform, shape, payload, float(np.sum(effvol))))


# ---------------------------------------------------------------------------- histories
def history_ops(shape):
    dim = len(shape)
    coarse = tuple(2 if shape[a] % 2 == 0 else 1 for a in range(dim))
    other = tuple((shape[a] if a == 0 else 1) for a in range(dim))  # collapse axis 0 entirely
    if other == coarse:
        other = tuple((2 if a == dim - 1 and shape[a] % 2 == 0 else 1) for a in range(dim))
    fine = tuple([2] * dim)
    res = {"native": ("native", tuple([1] * dim)), "coarser": ("coarse", coarse), "finer": ("fine", fine), "other-coarser": ("coarse", other)}
    return [(name, cont) for name in res for cont in ("array", "Image")], res


def run_history(case, r):
    gname, wform, shape, maxlen = case["geom"], case["wform"], tuple(case["shape"]), case["len"]
    dim = len(shape)
    fresh, effvol = make_geometry(gname, wform, shape)
    alphabet, res = history_ops(shape)
    if wclass(wform) == "array-weight" and dim != 2:
        alphabet = [(n, c) for (n, c) in alphabet if n == "native"]

    def data_for(name):
        kind, fac = res[name]
        if kind == "fine":
            ds = tuple(shape[a] * fac[a] for a in range(dim))
        elif kind == "coarse":
            ds = tuple(shape[a] // fac[a] for a in range(dim))
        else:
            ds = shape
        k = np.arange(int(np.prod(ds)))
        return (1.0 + (7 * k * k + 3 * k) % 11).astype(float).reshape(ds)  # not affine in the index

    def call(g, op):
        name, cont = op
        d = data_for(name)
        return g.integrate(wrap(d, shape, "scalar", cont == "Image"))

    table = {op: np.asarray(call(fresh(), op), dtype=float) for op in alphabet}
    # reference value as well (fresh object must itself be right): sum data x effective volume
    for op in alphabet:
        kind, fac = res[op[0]]
        ev = effvol if kind == "native" else (refine(effvol, fac) / float(np.prod(fac)) if kind == "fine" else block_sum(effvol, fac))
        want = float(np.sum(data_for(op[0]) * ev))
        r.check(close(table[op], want, RTOL_RESAMPLED if (wclass(wform) == "array-weight" and kind != "native") else RTOL), f"C03/integrate/{wclass(wform)}/{kind}/fresh-object", "first call on a fresh geometry = sum(data x effective volume) at the supplied resolution", op=op, got=table[op], want=want, geom=gname, shape=shape)
    cell = f"C03/history/{wclass(wform)}/dim={dim}"
    # (1) all un-deduplicated sequences
    nseq = 0
    first_bad = None
    for seq in sequences(alphabet, maxlen):
        g = fresh()
        nseq += 1
        for k, op in enumerate(seq):
            got = np.asarray(call(g, op), dtype=float)
            r.evals += 1
            if not (got.shape == table[op].shape and np.array_equal(got, table[op])) and first_bad is None:
                first_bad = (seq[: k + 1], got, table[op])
        if first_bad is not None:
            break
    if first_bad is not None:
        r.fail(cell, "the value returned for given data does not depend on what was integrated earlier with the same geometry object", sequence=first_bad[0], got=first_bad[1], want_fresh=first_bad[2], geom=gname, wform=wform, shape=shape)
    r.count("sequences", nseq)
    # (2) BFS over the hidden state of the geometry to a fixpoint
    g0 = fresh()
    seen = {digest(g0)}
    frontier = collections.deque([(g0, [])])
    transitions = 0
    while frontier:
        g, hist = frontier.popleft()
        for op in alphabet:
            h = copy.deepcopy(g)
            got = np.asarray(call(h, op), dtype=float)
            transitions += 1
            r.check(got.shape == table[op].shape and np.array_equal(got, table[op]), cell + "/bfs", "every call in every reachable hidden state returns the fresh-object value", history=hist + [op], got=got, want=table[op], geom=gname, wform=wform, shape=shape)
            k = digest(h)
            if k not in seen and len(seen) < 5000:
                seen.add(k)
                frontier.append((h, hist + [op]))
    r.count("states", len(seen))
    r.count("transitions", transitions + nseq)
    r.count("traces", transitions + nseq)
    r.nontriv(case)
    r.outcome((case, len(seen)))
    r.notes.setdefault("samples", [{"geometry": gname, "weights": wform, "shape": shape, "hidden_states": len(seen), "example_sequence": [list(alphabet[0]), list(alphabet[-1]), list(alphabet[0])]}])


def run_normalize(case, r):
    gname, wform, shape, payload, scale = case["geom"], case["wform"], tuple(case["shape"]), case["payload"], case.get("scale", 0)
    fresh, effvol = make_geometry(gname, wform, shape, scale)
    ps = payload_shape(payload)
    full = shape + ps
    n = int(np.prod(full))
    dt = case.get("dtype", "float64")
    raw = (1.0 + (np.arange(n) % 5)).reshape(full)
    if dt == "float32":
        raw = raw.astype(np.float32)
    elif dt.startswith("uint8"):
        raw = raw.astype(np.uint8)
    img = wrap(raw, shape, payload, True, scale)
    if dt == "uint8->astype(float)":
        img = img.astype(float)  # keeps its integer 'original_dtype'
    ref = wrap((2.0 + (np.arange(n) % 3) * 0.5).reshape(full), shape, payload, True, scale)
    cell = f"C03/normalize/{wclass(wform)}/payload={payload}/scale=2^{scale}/dtype={dt}"
    g = fresh()
    before = digest(img), digest(ref)
    out = g.normalize(img, ref)
    want = np.asarray(fresh().integrate(ref), dtype=float)
    got = np.asarray(fresh().integrate(out), dtype=float)
    rt = 1e-12 if dt != "float32" else 1e-6
    r.check(got.shape == want.shape and bool(np.all(np.abs(got - want) <= rt * np.abs(want))), cell, "after normalisation the image and the reference have equal integrals, per time step and component (relative 1e-12)", got=got, want=want)
    out2, ratio = fresh().normalize(img, ref, return_ratio=True)
    r.check(np.array_equal(out2.img, out.img) and np.allclose(ratio, np.asarray(fresh().integrate(ref)) / np.asarray(fresh().integrate(img)), rtol=rt, atol=0), cell, "return_ratio returns the same image and the ratio of the integrals")
    r.check((digest(img), digest(ref)) == before, cell + "/inputs", "normalize leaves both inputs unchanged")
    # history on the geometry object `g`: the same reference OBJECT is updated in place by the caller
    # (rescaled data) and used again; then another image against it; each result has the integral
    # of the reference as it is at the time of the call
    if dt == "float64":
        for step, fac in enumerate((0.5, 4.0)):
            ref.img[...] = ref.img * fac
            outh = g.normalize(img, ref)
            wanth = np.asarray(fresh().integrate(ref), dtype=float)
            goth = np.asarray(fresh().integrate(outh), dtype=float)
            r.check(goth.shape == wanth.shape and bool(np.all(np.abs(goth - wanth) <= rt * np.abs(wanth))), cell + "/history", "a geometry object that normalised against a reference before gives the current integral of that reference object after the caller changed its data", step=step, got=goth, want=wanth)
    r.nontriv(case)
    r.outcome((case, got.tolist()))


def run_case(case, r):
    {"integrate": run_integrate, "history": run_history, "normalize": run_normalize}[case["kind"]](case, r)
