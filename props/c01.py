"""C01 — voxel <-> coordinate consistency for every image geometry (E-lattice).

Reference model: the affine map written from the axis convention
    1-D: i -> +x        2-D: i -> -y, j -> +x        3-D: i -> -z, j -> +x, k -> -y
(not read from interpret_indexing), evaluated in float64.  Dyadic configurations are
compared exactly; others with a tolerance of a few ulp of the largest magnitude
involved, 8+ orders of magnitude below one voxel size.
"""

from __future__ import annotations

import itertools

import numpy as np

ID = "C01"
LEVEL = "exploration"
EXHAUSTIVE = True
RULE = (
    "space_dim 1..3 x every shape with extents 1..N x physical-dimension patterns (dyadic; rotations of (1e-4,0.7,1,2.5,1e4); thorough: "
    "full product) x origin {default, near, far=1e6 voxel sizes} x payload {scalar, vector, series, vector series} x constructor form "
    "{dimensions=, height/width/depth} + long axes (every voxel count 13..200); per image the bounding box, the all-voxel batches and every voxel in [-2, n+1]^d x intra-voxel offsets {1/8,1/2,7/8}^d + points 2^-20 of a voxel inside each face (quick: centre and "
    "the two extreme corners), batch and single-point call forms, typed point objects. Non-trivial = every image (each has >= 1 voxel "
    "and a halo); distinct = distinct (shape, dimensions, origin, payload, ctor)."
)
ASSUMPTIONS = [
    "points closer than 1/8 voxel to a voxel boundary are outside the alphabet",
    "float64 rounding bound: 8 eps (|origin| + |dimension| (n+halo)/n)",
]

CONV = {
    1: {0: (0, +1)},
    2: {0: (1, -1), 1: (0, +1)},
    3: {0: (2, -1), 1: (0, +1), 2: (1, -1)},
}
STRESS = [1e-4, 0.7, 1.0, 2.5, 1e4]
NMAX = {"quick": {1: 6, 2: 4, 3: 3}, "thorough": {1: 8, 2: 5, 3: 4}}


def describe(tier):
    return {"max_extent": NMAX[tier], "dimension_values": STRESS, "halo": 2, "origins": ["default", "near (3,-2,5)", "far 1e6 voxel sizes"]}


def cases(tier):
    out = []
    for dim in (1, 2, 3):
        n = NMAX[tier][dim]
        for shape in itertools.product(range(1, n + 1), repeat=dim):
            pats = [("dyadic", None)]
            if tier == "thorough" and dim <= 2:
                pats += [("stress", list(p)) for p in itertools.product(STRESS, repeat=dim)]
            else:
                pats += [("stress", [STRESS[(k + a) % 5] for a in range(dim)]) for k in range(5)]
                if tier == "thorough":
                    pats += [("stress", [STRESS[(k + 2 * a) % 5] for a in range(dim)]) for k in range(5)]
            for kind, dims in pats:
                for origin in ("default", "near", "far"):
                    for payload in ("scalar", "vector", "series", "vector-series"):
                        for ctor in ("dimensions", "hwd"):
                            if tier == "quick" and kind == "stress" and (payload, ctor) not in (("scalar", "dimensions"), ("vector-series", "hwd")):
                                # quick: payload/ctor product only on the dyadic pattern + two diagonal combos on stress
                                continue
                            out.append({"dim": dim, "shape": list(shape), "dims": dims, "origin": origin, "payload": payload, "ctor": ctor})
    # long single axes (every voxel count 13..200 at extents 1.0 and 0.7; 2-D: the long axis next to a
    # short one): per-axis vectors built by stepping through floats miscount exactly for some counts
    for n in range(13, 201):
        for ext in (1.0, 0.7):
            out.append({"dim": 1, "shape": [n], "dims": [ext], "origin": "default", "payload": "scalar", "ctor": "dimensions"})
        if n % 7 == 0 or n in (49, 98, 103, 107, 196, 197):
            out.append({"dim": 2, "shape": [n, 2], "dims": [1.0, 0.5], "origin": "near", "payload": "scalar", "ctor": "dimensions"})
            out.append({"dim": 2, "shape": [3, n], "dims": [0.75, 1.0], "origin": "default", "payload": "vector", "ctor": "dimensions"})
    out.sort(key=lambda c: (int(np.prod(c["shape"])), c["dim"], c["dims"] is not None, c["origin"] != "default"))
    return out


def build(case):
    import darsia

    dim, shape = case["dim"], tuple(case["shape"])
    if case["dims"] is None:
        vs0 = [0.5, 2.0, 0.25][:dim]
        dims = [vs0[a] * shape[a] for a in range(dim)]
        exact = True
    else:
        dims = list(case["dims"])
        exact = False
    full = shape
    kw = {"space_dim": dim}
    p = case["payload"]
    if p in ("series", "vector-series"):
        full = full + (2,)
        kw["series"] = True
        kw["time"] = [0.0, 1.0]
    if p in ("vector", "vector-series"):
        full = full + (2,)
        kw["scalar"] = False
    else:
        kw["scalar"] = True
    vs = [dims[a] / shape[a] for a in range(dim)]
    if case["origin"] == "near":
        kw["origin"] = [3.125, -2.75, 5.0625][:dim]
    elif case["origin"] == "far":
        # 1e6 voxel sizes away along every Cartesian axis
        org = np.zeros(dim)
        for m in range(dim):
            c, _ = CONV[dim][m]
            org[c] = 1e6 * vs[m] * (1 if m % 2 == 0 else -1)
        kw["origin"] = org.tolist()
    if case["ctor"] == "dimensions":
        kw["dimensions"] = list(dims)
    else:
        for name, val in zip(("height", "width", "depth"), dims):
            kw[name] = val
        if dim == 1:
            # height only addresses the first entry; supply a list for it to write into
            kw["dimensions"] = [1.0]
        else:
            kw["dimensions"] = [1.0] * dim
    img = darsia.Image(np.zeros(full), **kw)
    return img, dims, vs, exact


def run_case(case, r):
    import darsia

    dim, shape = case["dim"], tuple(case["shape"])
    img, dims, vs, exact = build(case)
    r.nontriv(case)
    tag = f"dim={dim}/{'dyadic' if exact else 'stress'}/origin={case['origin']}"
    pl = f"payload={case['payload']}/ctor={case['ctor']}"
    conv = CONV[dim]
    cs = img.coordinatesystem
    # the system is KEPT for the whole case while coordinate systems of other images (other
    # dimension, other voxel sizes) are requested: nothing they do may reach this one
    def distract():
        for d_ in (1, 2, 3):
            other = darsia.Image(np.zeros((2,) * d_), dimensions=[7.0, 3.0, 11.0][:d_], origin=[-1.0, 9.0, 4.0][:d_], space_dim=d_).coordinatesystem
            other.coordinate(np.ones(d_, dtype=int))

    distract()
    origin = np.array(img.origin, dtype=float, copy=True)  # private copy: must not alias the image's origin
    if case["origin"] != "default":
        want_o = np.array([3.125, -2.75, 5.0625][:dim]) if case["origin"] == "near" else None
        if want_o is not None:
            r.check(np.array_equal(origin, want_o), f"C01/origin/{tag}/{pl}", "a user origin is stored as given", got=origin)
    halo = 2
    scale = np.array([abs(origin[conv[m][0]]) + abs(dims[m]) * (shape[m] + halo + 1) / shape[m] for m in range(dim)])
    tolc = np.zeros(dim)  # tolerance per Cartesian axis
    for m in range(dim):
        tolc[conv[m][0]] = 0.0 if exact else 8 * np.finfo(float).eps * scale[m]

    def ref_coord(p):
        p = np.atleast_2d(np.asarray(p, dtype=float))
        out = np.empty_like(p)
        for m in range(dim):
            c, s = conv[m]
            out[:, c] = origin[c] + s * p[:, m] * vs[m]
        return out

    def close(a, b):
        a, b = np.asarray(a, dtype=float), np.asarray(b, dtype=float)
        return a.shape == b.shape and bool(np.all(np.abs(a - b) <= tolc))

    # (vi) image-level metadata
    r.check(list(img.num_voxels) == list(shape), f"C01/metadata/{tag}/{pl}", "num_voxels is the spatial shape (payload axes excluded)", got=img.num_voxels)
    r.check(close(np.array(img.dimensions, float), np.array(dims)) if False else [float(x) for x in img.dimensions] == [float(x) for x in dims], f"C01/metadata/{tag}/{pl}", "physical dimensions are stored per matrix axis", got=img.dimensions, want=dims)
    r.check([float(x) for x in img.voxel_size] == vs, f"C01/metadata/{tag}/{pl}", "voxel size = dimension / extent per axis", got=img.voxel_size, want=vs)
    # (i) voxel zero -> origin ; opposite corner displaced by the dimensions
    c0 = np.asarray(cs.coordinate(np.zeros(dim, dtype=int)), dtype=float)
    r.check(np.array_equal(c0, origin), f"C01/origin/{tag}/{pl}", "voxel index zero maps to the image origin", got=c0, want=origin)
    opp = np.asarray(img.opposite_corner, dtype=float)
    want_opp = origin.copy()
    for m in range(dim):
        c, s = conv[m]
        want_opp[c] = origin[c] + s * shape[m] * vs[m]
    r.check(close(opp, want_opp), f"C01/opposite-corner/{tag}/{pl}", "opposite corner = origin displaced by the physical dimensions along the conventional axes", got=opp, want=want_opp)
    disp = np.abs(opp - origin)
    want_disp = np.zeros(dim)
    for m in range(dim):
        want_disp[conv[m][0]] = dims[m]
    r.check(bool(np.all(np.abs(disp - want_disp) <= tolc + (0 if exact else 4 * np.finfo(float).eps * want_disp))), f"C01/opposite-corner/{tag}/{pl}", "|opposite - origin| equals the physical dimensions", got=disp, want=want_disp)
    # (i') the bounding box and the all-voxel batches of the coordinate system follow the same model
    want_min, want_max = np.minimum(origin, want_opp), np.maximum(origin, want_opp)
    r.check(close(np.asarray(cs.min_coordinate, dtype=float), want_min) and close(np.asarray(cs.max_coordinate, dtype=float), want_max), f"C01/domain/{tag}", "min_coordinate / max_coordinate are the extremes of origin and opposite corner (origin displaced by the physical dimensions)", got_min=np.asarray(cs.min_coordinate), got_max=np.asarray(cs.max_coordinate), want_min=want_min, want_max=want_max)
    okd = all(abs(float(cs.domain["xyz"[c_] + "min"]) - want_min[c_]) <= tolc[c_] and abs(float(cs.domain["xyz"[c_] + "max"]) - want_max[c_]) <= tolc[c_] for c_ in range(dim))
    r.check(okd, f"C01/domain/{tag}", "domain[axis min/max] is the bounding box of the image along each Cartesian axis", got=dict(cs.domain), want_min=want_min, want_max=want_max)
    allv = np.asarray(cs.voxels)
    allc = np.asarray(cs.coordinates, dtype=float)
    okb = allv.shape == (int(np.prod(shape)), dim) and allc.shape == allv.shape and len({tuple(v) for v in allv.tolist()}) == int(np.prod(shape)) and bool(np.all(allv >= 0)) and bool(np.all(allv < np.array(shape)))
    r.check(okb and close(allc, ref_coord(allv)), f"C01/all-voxels-batch/{tag}", "voxels lists every voxel of the image once and coordinates[n] is the coordinate of voxels[n]", n_voxels=int(allv.shape[0]), n_coordinates=int(allc.shape[0]), want=int(np.prod(shape)))
    # (ii) unit steps (image properties used above request coordinate systems of the image itself;
    # the other images come last again)
    distract()
    for m in range(dim):
        e = np.zeros(dim, dtype=int)
        e[m] = 1
        step = np.asarray(cs.coordinate(e), dtype=float) - c0
        c, s = conv[m]
        want = np.zeros(dim)
        want[c] = s * vs[m]
        others = np.delete(step, c)
        ok = bool(np.all(others == 0.0)) and (step[c] == want[c] if exact else abs(step[c] - want[c]) <= tolc[c] * 2)
        r.check(ok, f"C01/unit-step/{tag}/axis={m}", "one voxel step along matrix axis m moves by one voxel size along its Cartesian axis with the documented orientation", got=step, want=want)
        # coordinatesystem.voxel_size / length / num_voxels
        ax = "xyz"[c]
        r.check(float(cs.voxel_size[ax]) == vs[m], f"C01/metadata/{tag}/{pl}", "coordinate system voxel size per Cartesian axis", axis=ax, got=cs.voxel_size[ax], want=vs[m])
        r.check(float(cs.length(3, ax)) == 3 * vs[m], f"C01/length/{tag}", "length(n, axis) = n * voxel size", axis=ax)
        if exact:
            r.check(int(cs.num_voxels(3 * vs[m], ax)) == 3, f"C01/length/{tag}", "num_voxels(n * voxel size, axis) = n", axis=ax)
    r.outcome((dim, shape, case["dims"], case["origin"], c0.tolist(), opp.tolist()))
    if case["payload"] != "scalar" and not exact and case["ctor"] == "dimensions":
        pass
    # default origin: reported, not asserted (the statement does not fix it)
    if case["origin"] == "default":
        mn = np.minimum(origin, opp)
        r.count("default_origin_min_corner_is_zero" if bool(np.all(np.abs(mn) <= tolc)) else "default_origin_min_corner_nonzero")

    # (iv) every voxel incl. halo x offsets
    distract()
    rng = [range(-halo, shape[m] + halo) for m in range(dim)]
    V = np.array(list(itertools.product(*rng)), dtype=int)
    offs1 = [0.125, 0.5, 0.875]
    offsets = [np.full(dim, 0.5), np.full(dim, 0.125), np.full(dim, 0.875)]
    if case.get("all_offsets") or len(V) <= 64:
        offsets = [np.array(o) for o in itertools.product(offs1, repeat=dim)]
    # points strictly inside a voxel but very close to one of its faces (2^-20 of a voxel: far
    # above the rounding level of the conversion for every geometry of the lattice, far below
    # any tolerance meant for round-off)
    eps_in = 2.0**-20
    offsets += [np.full(dim, eps_in), np.full(dim, 1.0 - eps_in)]
    for m in range(dim):
        for val in (eps_in, 1.0 - eps_in):
            o_ = np.full(dim, 0.5)
            o_[m] = val
            offsets.append(o_)
    # batch forms
    Cl = cs.coordinate((V + 0.5).tolist())
    r.check(close(Cl, ref_coord(V + 0.5)), f"C01/coordinate-batch/{tag}", "a nested list of fractional voxel positions converts like the array", type=type(Cl).__name__)
    Cv = cs.coordinate(V)
    # index arrays of every integer storage type (non-negative indices for the unsigned ones)
    Vp = V[np.all(V >= 0, axis=1)]
    for dt_ in ("uint8", "uint16", "uint32", "uint64", "int8", "int16", "int32"):
        Vsrc = Vp if dt_.startswith("u") else V
        if Vsrc.size and (Vsrc.max() > np.iinfo(dt_).max or Vsrc.min() < np.iinfo(dt_).min):
            continue  # the indices of this image do not fit the type
        Vd = Vsrc.astype(dt_)
        keepd = Vd.copy()
        Cd = cs.coordinate(Vd)
        r.check(close(Cd, ref_coord(keepd.astype(float))) and np.array_equal(Vd, keepd), f"C01/coordinate-batch/{tag}/index-dtype", "voxel indices stored as any integer type convert like int64 indices (and are left unchanged)", dtype=dt_)
    r.check(isinstance(Cv, darsia.CoordinateArray) and close(Cv, ref_coord(V)), f"C01/coordinate-batch/{tag}", "coordinate(batch of voxels incl. halo) follows the affine model, returned as CoordinateArray", type=type(Cv).__name__)
    for o in offsets:
        P = V + o
        C = ref_coord(P)
        C_keep = C.copy()
        got = cs.voxel(C)
        # the caller's coordinate array is an argument, not a work buffer: unchanged, and a second
        # conversion of the same array gives the same voxels (also as a typed Coordinate array)
        r.check(np.array_equal(C, C_keep), f"C01/voxel-batch/{tag}/input-unchanged", "voxel() leaves the coordinate array it was given unchanged", offset=o)
        Ct = darsia.make_coordinate(C_keep.copy())
        g1, g2 = np.asarray(cs.voxel(Ct)), np.asarray(cs.voxel(Ct))
        r.check(np.array_equal(np.asarray(Ct), C_keep) and np.array_equal(g1, g2), f"C01/voxel-batch/{tag}/input-unchanged", "a typed coordinate array converts to the same voxels every time it is converted", offset=o)
        ok = isinstance(got, darsia.VoxelArray) and np.array_equal(np.asarray(got), V)
        if not ok:
            bad = int(np.argmax(np.any(np.asarray(got) != V, axis=1))) if np.asarray(got).shape == V.shape else -1
            r.fail(f"C01/voxel-batch/{tag}", "every point strictly inside a voxel (halo included) converts to that voxel's index", offset=o, voxel=V[bad] if bad >= 0 else None, coordinate=C[bad] if bad >= 0 else None, got=np.asarray(got)[bad] if bad >= 0 else type(got).__name__)
        else:
            r.ok()
        # through the real forward map as well
        C2 = np.asarray(cs.coordinate(V), dtype=float) + (ref_coord(o) - ref_coord(np.zeros(dim)))
        got2 = cs.voxel(C2)
        r.check(np.array_equal(np.asarray(got2), V), f"C01/voxel-batch/{tag}", "voxel(coordinate(v) + offset inside the voxel) == v", offset=o)
    # physical points given with an INTEGER storage type (int arrays, lists of Python ints, typed
    # Coordinate arrays built from ints): all integer points of the bounding box + 2, except those
    # closer than 1e-6 voxel to a voxel face (membership there is a rounding question)
    lo_c = np.floor(np.minimum(origin, opp)).astype(int) - 2
    hi_c = np.ceil(np.maximum(origin, opp)).astype(int) + 2
    if int(np.prod(hi_c - lo_c + 1)) <= 4096 and float(np.max(np.abs(origin))) < 1e5:
        PI = np.array(list(itertools.product(*[range(int(a), int(b) + 1) for a, b in zip(lo_c, hi_c)])), dtype=int)
        rel = np.empty(PI.shape, dtype=float)
        for m in range(dim):
            c_, s_ = conv[m]
            rel[:, m] = s_ * (PI[:, c_].astype(float) - origin[c_]) / vs[m]
        keep_i = np.all(np.abs(rel - np.round(rel)) > 1e-6, axis=1)
        if keep_i.any():
            PI, want_v = PI[keep_i], np.floor(rel[keep_i]).astype(int)
            for name_, arg_ in (("int64-array", PI.copy()), ("int32-array", PI.astype(np.int32)), ("nested-int-list", PI.tolist()), ("typed-from-ints", darsia.make_coordinate(PI.copy()))):
                got_v = np.asarray(cs.voxel(arg_))
                okv = got_v.shape == want_v.shape and np.array_equal(got_v, want_v)
                badv = int(np.argmax(np.any(got_v != want_v, axis=1))) if (not okv and got_v.shape == want_v.shape) else -1
                r.check(okv, f"C01/voxel-batch/{tag}/integer-typed-coordinates", "physical points stored with an integer type convert like the same points stored as floats", form=name_, point=PI[badv] if badv >= 0 else None, got=got_v[badv] if badv >= 0 else None, want=want_v[badv] if badv >= 0 else None)
            p0 = [int(v) for v in PI[0]]
            r.check(np.array_equal(np.asarray(cs.voxel(p0)), want_v[0]), f"C01/voxel-batch/{tag}/integer-typed-coordinates", "a single point given as a list of Python ints converts like the float point", point=p0, want=want_v[0])
    # list / tuple / single-point forms on every voxel (centre offset)
    okl, okt, oks, okc = True, True, True, True
    for v in V:
        c = ref_coord(v + 0.5)[0]
        gv = cs.voxel(c)
        if not (isinstance(gv, darsia.Voxel) and not isinstance(gv, darsia.VoxelArray) and gv.shape == (dim,) and np.array_equal(np.asarray(gv), v)):
            oks = False
        if not np.array_equal(np.asarray(cs.voxel(c.tolist())), v):
            okl = False
        g1 = cs.coordinate(v)
        g2 = cs.coordinate(v.tolist())
        g3 = cs.coordinate(tuple(v.tolist()))
        w = ref_coord(v)[0]
        if not (isinstance(g1, darsia.Coordinate) and not isinstance(g1, darsia.CoordinateArray) and close(g1, w)):
            okc = False
        if not (close(g2, w) and close(g3, w)):
            okt = False
        # fractional positions (the voxel centre) as plain list / tuple / array
        wc = ref_coord(v + 0.5)[0]
        if not (close(cs.coordinate((v + 0.5).tolist()), wc) and close(cs.coordinate(tuple((v + 0.5).tolist())), wc) and close(cs.coordinate(v + 0.5), wc)):
            okt = False
    r.check(oks, f"C01/voxel-single/{tag}", "single point -> Voxel of shape (dim,) equal to the containing voxel (centre of every voxel incl. halo)")
    r.check(okl, f"C01/voxel-single/{tag}", "list form gives the same voxel")
    r.check(okc, f"C01/coordinate-single/{tag}", "single voxel -> Coordinate following the affine model")
    r.check(okt, f"C01/coordinate-single/{tag}", "list and tuple forms give the same coordinate")

    # (v) typed point objects (batch and single), halo included
    VA = darsia.make_voxel(V)
    r.check(isinstance(VA, darsia.VoxelArray), f"C01/typed/make/dim={dim}", "make_voxel(batch) is a VoxelArray")
    tc = VA.to_coordinate(cs)
    r.check(isinstance(tc, darsia.CoordinateArray) and close(tc, ref_coord(V)), f"C01/typed/voxel->coordinate/dim={dim}", "VoxelArray.to_coordinate == affine model")
    VC = VA.to_voxel_center()
    r.check(isinstance(VC, darsia.VoxelCenterArray) and np.array_equal(np.asarray(VC), V + 0.5), f"C01/typed/voxel->voxelcenter/dim={dim}", "VoxelArray.to_voxel_center == v + 1/2")
    vcc = VC.to_coordinate(cs)
    r.check(isinstance(vcc, darsia.CoordinateArray) and close(vcc, ref_coord(V + 0.5)), f"C01/typed/voxelcenter->coordinate/dim={dim}", "VoxelCenterArray.to_coordinate == coordinate of the voxel centre")
    back = VC.to_voxel()
    r.check(isinstance(back, darsia.VoxelArray) and np.array_equal(np.asarray(back), V), f"C01/typed/voxelcenter->voxel/dim={dim}", "VoxelCenterArray.to_voxel == v, negative (halo) indices included", got=np.asarray(back)[:4], want=V[:4])
    CA = darsia.make_coordinate(ref_coord(V + 0.5))
    tv = CA.to_voxel(cs)
    r.check(isinstance(tv, darsia.VoxelArray) and np.array_equal(np.asarray(tv), V), f"C01/typed/coordinate->voxel/dim={dim}", "centre coordinate -> the same voxel (round trip)")
    tvc = CA.to_voxel_center(cs)
    r.check(isinstance(tvc, darsia.VoxelCenterArray) and np.array_equal(np.asarray(tvc), V + 0.5), f"C01/typed/coordinate->voxelcenter/dim={dim}", "centre coordinate -> the same voxel centre")
    # generic `to`
    r.check(np.array_equal(np.asarray(CA.to(darsia.VoxelArray, cs)), V) and np.array_equal(np.asarray(VA.to(darsia.VoxelCenterArray)), V + 0.5) and close(VA.to(darsia.CoordinateArray, cs), ref_coord(V)), f"C01/typed/to/dim={dim}", "to(cls) dispatches to the same conversions")
    # single typed points on the extreme voxels (both halo corners and both image corners)
    for v in (V[0], V[-1], np.zeros(dim, dtype=int), np.array(shape) - 1):
        sv = darsia.make_voxel(v)
        svc = sv.to_voxel_center()
        ok = (
            isinstance(sv, darsia.Voxel)
            and isinstance(svc, darsia.VoxelCenter)
            and np.array_equal(np.asarray(svc), v + 0.5)
            and np.array_equal(np.asarray(svc.to_voxel()), v)
            and close(sv.to_coordinate(cs), ref_coord(v)[0])
            and close(svc.to_coordinate(cs), ref_coord(v + 0.5)[0])
            and np.array_equal(np.asarray(darsia.make_coordinate(ref_coord(v + 0.5)[0]).to_voxel(cs)), v)
            and np.array_equal(np.asarray(svc.to_coordinate(cs).to_voxel_center(cs)), v + 0.5)
        )
        r.check(ok, f"C01/typed/single/dim={dim}", "single typed points convert like batches (voxel -> centre -> coordinate -> voxel)", voxel=v)
    # element access of typed arrays keeps the point
    k = 0
    r.check(np.array_equal(np.asarray(VC[k]), V[k] + 0.5) and isinstance(VC[k], darsia.VoxelCenter), f"C01/typed/getitem/dim={dim}", "VoxelCenterArray[k] is the k-th voxel centre (halo: negative index)", got=np.asarray(VC[k]), want=V[k] + 0.5)
    r.check(np.array_equal(np.asarray(VA[k]), V[k]) and isinstance(VA[k], darsia.Voxel), f"C01/typed/getitem/dim={dim}", "VoxelArray[k] is the k-th voxel")
    # sub-batches selected with an index array or a boolean mask keep their point type and
    # convert like the corresponding rows of the full batch
    inside = np.all((V >= 0) & (V < np.array(shape)), axis=1)
    for kname, key in (("index-array", np.array([0, len(V) - 1, len(V) // 2])), ("mask", inside)):
        sub = V[key]
        for tname, arr, cls, vals, convert in (
            ("voxel", VA, darsia.VoxelArray, sub, lambda x: x.to_coordinate(cs)),
            ("voxelcenter", VC, darsia.VoxelCenterArray, sub + 0.5, lambda x: x.to_coordinate(cs)),
            ("coordinate", CA, darsia.CoordinateArray, ref_coord(sub + 0.5), lambda x: x.to_voxel(cs)),
        ):
            got = arr[key]
            ok = type(got) is cls and (np.array_equal(np.asarray(got), vals) if tname != "coordinate" else close(got, vals))
            if ok:
                full = np.asarray(convert(arr), dtype=float)[key]
                part = np.asarray(convert(got), dtype=float)
                ok = part.shape == full.shape and np.array_equal(part, full)
            r.check(ok, f"C01/typed/getitem-{kname}/{tname}/dim={dim}", "a sub-batch selected by index array / mask keeps its point type and converts like the same rows of the full batch", type=type(got).__name__)


    # ---- call history on ONE image object: the geometry is changed in place after the
    # coordinate system has been used; every conversion must follow the current metadata
    history_clause(r, case, img, dims, vs, V, conv, exact, tolc)


def history_clause(r, case, img, dims, vs, V, conv, exact, tolc):
    import darsia

    dim = case["dim"]
    shape = tuple(case["shape"])
    cellb = f"C01/history/dim={dim}"

    def recheck(label, origin_expected):
        cs = img.coordinatesystem
        o = np.array(origin_expected, dtype=float)
        c0 = np.asarray(cs.coordinate(np.zeros(dim, dtype=int)), dtype=float)
        r.check(np.array_equal(c0, o) and np.array_equal(np.asarray(img.origin, dtype=float), o), f"{cellb}/{label}/origin", "after an in-place change of the origin, voxel zero maps to the new origin", got=c0, want=o)
        P = V + 0.5
        C = np.empty_like(P)
        for m in range(dim):
            c, s_ = conv[m]
            C[:, c] = o[c] + s_ * P[:, m] * vs[m]
        got = np.asarray(cs.voxel(C))
        r.check(np.array_equal(got, V), f"{cellb}/{label}/roundtrip", "voxel centres computed with the new origin convert to their voxels (no stale coordinate system)")
        opp = np.asarray(img.opposite_corner, dtype=float)
        want = o.copy()
        for m in range(dim):
            c, s_ = conv[m]
            want[c] = o[c] + s_ * shape[m] * vs[m]
        r.check(bool(np.all(np.abs(opp - want) <= tolc * 2 + (0 if exact else 4e-16 * np.abs(want)))), f"{cellb}/{label}/opposite-corner", "the opposite corner follows the new origin", got=opp, want=want)
        # reading derived quantities must not move the origin
        r.check(np.array_equal(np.asarray(img.origin, dtype=float), o), f"{cellb}/{label}/origin-stable", "reading opposite_corner / coordinatesystem leaves the origin unchanged", got=np.asarray(img.origin, dtype=float), want=o)

    _ = img.coordinatesystem.coordinate(np.zeros(dim, dtype=int))  # the system has been used
    _ = img.opposite_corner
    o1 = [7.0, -3.0, 11.0][:dim]
    img.update_metadata(origin=darsia.Coordinate(np.array(o1)))
    recheck("update_metadata", o1)
    o2 = [-1.5, 4.25, 0.5][:dim]
    img.origin = darsia.Coordinate(np.array(o2))
    recheck("assign", o2)
    img.reset_origin()
    # the statement does not fix the default origin: whatever reset_origin() stores is the
    # origin every conversion has to follow from now on
    o3 = np.array(img.origin, dtype=float, copy=True)
    recheck("reset_origin", o3)
