"""C14 — signal-to-data models obey their defining algebra (E-lattice, exhaustive).

Every model family of the property is executed on a completely enumerated finite alphabet
and compared with a boring reference written here (explicit loops / closed forms, float64):

  clip       bounds x key prefix x signal forms x signals; confinement, idempotence, updates
  scaling    scalings x forms x signals; affine law on signal pairs; updates
  linear     scalings x offsets x forms x signals; affine law; updates
  combined   every sequence of length 1..3 over {clip, scaling, linear}; == sequential
             composition; flat parameter vector for dofs None / "all" / every list of
             (position, subset) pairs
  threshold  every (lower, upper) pair of a threshold ladder x masks x return_float x forms
  labelwise  every set partition of a 2x3 grid into <= 3 labels (thorough: <= 6) and stripes
             with 4 / 5 labels x {HeterogeneousLinearModel, HeterogeneousModel(clip | scaling |
             linear | kernel interpolation), label-wise StaticThresholdModel}
  kernel     {Gaussian 0.5, 1; Linear 0, 1} x every subset of 1..4 support points of a pool that
             gives a well-conditioned kernel matrix x support order x value vectors; reproduction
             at the supports, accelerated == plain sum for signal ranks 1, 2, 3, updates
  poly       PolynomialApproximationSpace(d), d = 0..4: exact rational rank / column space

All data are dyadic, so every comparison except the float32 kernel evaluations is exact (==).
"""

from __future__ import annotations

import itertools
from fractions import Fraction

import numpy as np

ID = "C14"
LEVEL = "exploration"
EXHAUSTIVE = True
RULE = (
    "full product of the axes listed in describe(); per model case every signal form {1-D list, 2-D, 3-D RGB array, Image} x every "
    "signal of the family (value at flat position p is LEVELS[(p*step+rot) % 6]); every subset of updatable parameters (None, 'all', "
    "every non-empty name list) per model and every list of (position, subset) pairs for combined models. Non-trivial = the model "
    "changes at least one enumerated signal (clip/scaling/linear/combined), the mask is neither empty nor full for some signal "
    "(threshold), the label map has >= 2 labels (labelwise), every kernel / polynomial case; distinct = distinct case descriptor."
)
ASSUMPTIONS = [
    "clip bounds satisfy lower <= upper (np.clip semantics for crossed bounds are not part of the property)",
    "label-wise models and kernel interpolation are exercised on arrays (their signal is indexed by masks / cast to float32); Images "
    "are passed to the element-wise homogeneous models clip, scaling, linear, combined and homogeneous static threshold",
    "label maps have the shape of the (scalar part of the) signal and dtype uint8; resizing of label maps is not part of the property",
    "'well-conditioned' = 2-norm condition number of the float64 kernel matrix <= 100 (decided by the reference, a priori); hence the "
    "linear kernel with shift 0 has at most 3 supports and never the origin",
    "float32 kernel evaluations are compared with the float64 reference to 1e-4 * (1 + sum |weights|) (rounding bound ~1e-6 * sum |weights|)",
    "subsets of updatable parameters are unordered: name lists are passed in the documented (canonical) order only",
]

LEVELS = [-1.0, 0.0, 0.25, 0.5, 1.0, 2.0]
FORMS = ["1d", "2d", "rgb", "image"]
SHAPES = {"1d": (6,), "2d": (2, 3), "rgb": (2, 3, 3), "image": (2, 3)}

CLIP_NUMS = [-2.0, -1.0, -0.5, 0.0, 0.25, 0.375, 1.0, 2.0, 3.0]
SCALINGS = [0.5, 1.0, 2.0, -1.0]
OFFSETS = [0.0, 0.5, 1.0, 2.0, -1.0]
THRESHOLDS = [-2.0, -1.0, -0.5, 0.0, 0.125, 0.25, 0.375, 0.5, 0.75, 1.0, 1.5, 2.0, 3.0]
KEYS = ["", "k "]

# per-position parameters of combined models (initial, variant) and the update values
COMB_INIT = {
    0: {"clip": [(0.0, 1.0), (-0.5, 0.5), (0.25, 2.0)], "scaling": [2.0, -1.0, 0.5], "linear": [(2.0, -1.0), (-1.0, 0.5), (0.5, 0.25)]},
    1: {"clip": [(-1.0, 0.25), (0.0, 3.0), (0.5, 0.5)], "scaling": [0.5, 4.0, -2.0], "linear": [(-2.0, 1.0), (0.5, -0.25), (4.0, 0.0)]},
}
COMB_NEW = {"clip": [(0.25, 0.75), (-0.75, 1.5), (0.0, 0.5)], "scaling": [-0.5, 4.0, 0.25], "linear": [(0.5, 0.125), (4.0, -2.0), (-0.25, 1.0)]}
NAMES = {"clip": ["min_value", "max_value"], "scaling": ["scaling"], "linear": ["scaling", "offset"]}

# label-wise parameters by sorted label index
LV = [5, 2, 9, 1, 7, 3]  # block b of a partition carries label value LV[b] (order of appearance != sorted order)
HET_S = [2.0, 0.5, -1.0, 4.0, 0.25, -2.0]
HET_O = [1.0, -0.5, 0.25, 0.0, 2.0, -1.0]
HET_S2 = [-0.5, 4.0, 2.0, 0.25, -1.0, 0.5]
HET_O2 = [0.25, 2.0, -1.0, 0.5, 0.0, 1.0]
HET_CLIP = [(0.0, 1.0), (-0.5, 0.25), (0.25, 2.0), (-1.0, 0.0), (0.5, 0.5), (0.0, 3.0)]
HET_THR = [(0.0, 1.0), (-0.5, 0.375), (0.125, 3.0), (-2.0, 0.0), (0.25, 0.75), (0.5, None)]

# kernels and supports (pool in lexicographic order: np.unique order)
KERNELS = [["gauss", 0.5], ["gauss", 1.0], ["linear", 0.0], ["linear", 1.0]]
POOL = [(0.0, 0.0, 0.0), (0.0, 0.0, 1.0), (0.0, 1.0, 0.0), (0.5, 0.5, 2.0), (1.0, 0.0, 0.0), (1.0, 1.0, 1.0), (1.0, 2.0, -1.0), (2.0, 0.0, 1.0)]
POOL_N = {"quick": 6, "thorough": 8}
KVALS = [[0.25, 1.0, -1.0, 2.0], [2.0, 0.5, 0.0, -1.0], [1.0, 1.0, 1.0, 1.0]]
KNEW = [1.0, -0.5, 2.0, 0.25]
KW = [1.0, -2.0, 0.5, 4.0]
COND_MAX = 100.0


# ---------------------------------------------------------------------------------
# enumeration helpers (no darsia here)
def _partitions(n, kmax):
    """Restricted growth strings: every set partition of n cells into <= kmax blocks."""
    out = []

    def rec(pre, m):
        if len(pre) == n:
            out.append(list(pre))
            return
        for b in range(min(m + 1, kmax - 1) + 1):
            rec(pre + [b], max(m, b))

    rec([0], 0)
    return out


def _kfun(kern, x, y):
    x, y = np.asarray(x, dtype=float), np.asarray(y, dtype=float)
    if kern[0] == "gauss":
        d = x - y
        return np.exp(-kern[1] * np.sum(d * d, axis=-1))
    return np.sum(x * y, axis=-1) + kern[1]


def _kmatrix(kern, sup):
    n = len(sup)
    X = np.zeros((n, n))
    for i in range(n):
        for j in range(n):
            X[i, j] = _kfun(kern, sup[i], sup[j])
    return X


def _well_conditioned(kern, sup):
    X = _kmatrix(kern, sup)
    s = np.linalg.svd(X, compute_uv=False)
    return bool(s[-1] > 0 and s[0] / s[-1] <= COND_MAX)


def _kernel_cases(tier):
    out, skipped = [], 0
    pool = list(range(POOL_N[tier]))
    nvals = 2 if tier == "quick" else 3
    for n in (1, 2, 3, 4):
        for idx in itertools.combinations(pool, n):
            sup = [POOL[i] for i in idx]
            for kern in KERNELS:
                if not _well_conditioned(kern, sup):
                    skipped += 1
                    continue
                for order in ("sorted", "unsorted") if n > 1 else ("sorted",):
                    for v in range(nvals if order == "sorted" else nvals - 1):
                        out.append({"kind": "kernel", "kernel": kern, "supports": list(idx), "order": order, "values": v, "tier": tier})
    return out, skipped


def _label_cases(tier):
    maps = []
    kmax = 3 if tier == "quick" else 6
    for p in _partitions(6, kmax):
        maps.append({"shape": [2, 3], "blocks": p})
    maps.append({"shape": [4, 5], "blocks": [i for i in range(4) for _ in range(5)]})  # 4 row stripes
    maps.append({"shape": [4, 5], "blocks": [j for _ in range(4) for j in range(5)]})  # 5 column stripes
    maps.sort(key=lambda m: (len(m["blocks"]), max(m["blocks"]), m["blocks"]))
    out = []
    for m in maps:
        for model in ("hetlinear", "het-clip", "het-scaling", "het-linear", "het-kernel", "threshold"):
            out.append({"kind": "labelwise", "model": model, **m})
    return out


def _clip_bounds():
    out = []
    for lo in ["default"] + CLIP_NUMS:
        for hi in ["default"] + CLIP_NUMS:
            elo = 0.0 if lo == "default" else lo
            if hi != "default" and elo > hi:
                continue
            out.append((lo, hi))
    return out


def _comb_seqs():
    return [list(s) for n in (1, 2, 3) for s in itertools.product(["clip", "scaling", "linear"], repeat=n)]


def describe(tier):
    kc, skipped = _kernel_cases(tier)
    return {
        "levels": LEVELS,
        "signal_forms": SHAPES,
        "signals_per_form": len(_sigparams(tier)),
        "clip_bound_pairs": len(_clip_bounds()),
        "scalings": SCALINGS,
        "offsets": OFFSETS,
        "combined_sequences": len(_comb_seqs()),
        "combined_variants": 1 if tier == "quick" else 2,
        "threshold_ladder": THRESHOLDS,
        "label_maps": len(_label_cases(tier)) // 6,
        "kernels": KERNELS,
        "support_pool": POOL[: POOL_N[tier]],
        "kernel_cases": len(kc),
        "ill_conditioned_support_sets_excluded": skipped,
        "polynomial_degrees": [0, 1, 2, 3, 4],
    }


def cases(tier):
    out = []
    for d in range(5):
        out.append({"kind": "poly", "degree": d})
    for s in SCALINGS:
        for key in KEYS:
            out.append({"kind": "scaling", "s": s, "key": key, "tier": tier})
    for s in SCALINGS:
        for o in OFFSETS:
            for key in KEYS:
                out.append({"kind": "linear", "s": s, "o": o, "key": key, "tier": tier})
    for lo, hi in _clip_bounds():
        for key in KEYS:
            out.append({"kind": "clip", "lo": lo, "hi": hi, "key": key, "tier": tier})
    for v in range(1 if tier == "quick" else 2):
        for seq in _comb_seqs():
            out.append({"kind": "combined", "parts": seq, "variant": v, "tier": tier})
    out.append({"kind": "threshold-update"})
    for lo in THRESHOLDS:
        for hi in [None] + THRESHOLDS:
            out.append({"kind": "threshold", "lo": lo, "hi": hi, "tier": tier})
    for c in _label_cases(tier):
        c["tier"] = tier
        out.append(c)
    out.extend(_kernel_cases(tier)[0])
    return out


def crash_cell(case, exc, where):
    return f"C14/{case.get('kind')}/crash/{type(exc).__name__}@{where}"


# ---------------------------------------------------------------------------------
# signals and references
def _sigparams(tier):
    if tier == "quick":
        return [(rot, 1) for rot in range(6)] + [(0, 5)]
    return [(rot, step) for step in (1, 5) for rot in range(6)]


def _values(shape, rot, step):
    n = int(np.prod(shape))
    return np.array([LEVELS[(p * step + rot) % 6] for p in range(n)], dtype=float).reshape(shape)


def _is_image(x):
    import darsia

    return isinstance(x, darsia.Image)


def _wrap(form, arr):
    import darsia

    if form == "image":
        return darsia.Image(arr.copy(), space_dim=2, dimensions=[1.0, 1.5], scalar=True)
    return arr.copy()


def _apply(r, cell, model, form, arr, *args):
    """Call the real model on a fresh signal; returns the output as an array or None."""
    sig = _wrap(form, arr)
    try:
        out = model(sig, *args)
    except Exception as e:  # attributed a priori to the cell of this call
        r.fail(cell, "the model is usable on this signal", form=form, signal=arr, exception=f"{type(e).__name__}: {e}")
        return None
    after = sig.img if form == "image" else sig
    r.check(np.array_equal(after, arr), cell, "the signal passed in is left unchanged", form=form, signal=arr, after=after)
    if form == "image":
        if not r.check(_is_image(out), cell, "an Image signal gives an Image", got=type(out).__name__):
            return None
        return np.asarray(out.img)
    if not r.check(isinstance(out, np.ndarray), cell, "an array signal gives an array", got=type(out).__name__):
        return None
    return out


def _same(got, want):
    return got is not None and tuple(got.shape) == tuple(want.shape) and np.array_equal(np.asarray(got, dtype=float), want)


def ref_clip(a, lo, hi):
    def f(v):
        if lo is not None and v < lo:
            v = lo
        if hi is not None and v > hi:
            v = hi
        return v

    return np.array([f(float(v)) for v in a.ravel()], dtype=float).reshape(a.shape)


def ref_affine(a, s, o):
    return np.array([s * float(v) + o for v in a.ravel()], dtype=float).reshape(a.shape)


def ref_threshold(a, lo, hi, mask):
    out = np.zeros(a.shape, dtype=bool)
    for idx in np.ndindex(*a.shape):
        v = float(a[idx])
        ok = lo < v and (hi is None or v < hi)
        if mask is not None:
            ok = ok and bool(mask[idx])
        out[idx] = ok
    return out


def _ref_part(kind, par):
    if kind == "clip":
        return lambda a: ref_clip(a, par[0], par[1])
    if kind == "scaling":
        return lambda a: ref_affine(a, par, 0.0)
    return lambda a: ref_affine(a, par[0], par[1])


def _make_part(kind, par, key=""):
    import darsia

    if kind == "clip":
        kw = {}
        if par[0] != "default":
            kw[key + "min value"] = par[0]
        if par[1] != "default":
            kw[key + "max value"] = par[1]
        return darsia.ClipModel(key=key, **kw)
    if kind == "scaling":
        return darsia.ScalingModel(key=key, **{key + "scaling": par})
    return darsia.LinearModel(key=key, **{key + "scaling": par[0], key + "offset": par[1]})


def _subsets(kind):
    """Every way to address the updatable parameters of one model: (tag, dofs, names)."""
    names = NAMES[kind]
    out = [("none", None, names), ("all", "all", names)]
    for n in range(1, len(names) + 1):
        for sub in itertools.combinations(names, n):
            out.append(("+".join(s.replace("_value", "") for s in sub), list(sub), list(sub)))
    return out


def _updated(kind, par, names, vec):
    """Reference semantics of an update: the named parameters take the vector entries in order."""
    if kind == "scaling":
        return vec[0]
    new = list(par)
    for name, v in zip(names, vec):
        new[NAMES[kind].index(name)] = v
    return tuple(new)


# ---------------------------------------------------------------------------------
def run_case(case, r):
    kind = case["kind"]
    if kind == "poly":
        return _run_poly(case, r)
    if kind in ("clip", "scaling", "linear"):
        return _run_single(case, r)
    if kind == "combined":
        return _run_combined(case, r)
    if kind == "threshold":
        return _run_threshold(case, r)
    if kind == "threshold-update":
        return _run_threshold_update(case, r)
    if kind == "labelwise":
        return _run_labelwise(case, r)
    if kind == "kernel":
        return _run_kernel(case, r)
    raise AssertionError(kind)


# ---- clip / scaling / linear ------------------------------------------------------
def _run_single(case, r):
    kind, key, tier = case["kind"], case["key"], case["tier"]
    if kind == "clip":
        par = (case["lo"], case["hi"])
        eff = (0.0 if par[0] == "default" else par[0], None if par[1] == "default" else par[1])
    elif kind == "scaling":
        par = eff = case["s"]
    else:
        par = eff = (case["s"], case["o"])
    ref = _ref_part(kind, eff)
    changed = False
    digest = []
    for form in FORMS:
        shape = SHAPES[form]
        sigs = [_values(shape, rot, step) for rot, step in _sigparams(tier)]
        cell = f"C14/{kind}/call/signal={form}"
        outs = []
        for a in sigs:
            model = _make_part(kind, par, key)
            got = _apply(r, cell, model, form, a)
            want = ref(a)
            outs.append(got)
            if got is None:
                continue
            r.check(_same(got, want), cell, {"clip": "min(max(x, lower), upper) element-wise", "scaling": "scaling * x", "linear": "scaling * x + offset"}[kind], params=eff, signal=a, got=got, want=want)
            changed = changed or not np.array_equal(want, a)
            digest.append(got.tolist())
            if kind == "clip":
                lo, hi = eff
                inside = bool(np.all(got >= lo)) and (hi is None or bool(np.all(got <= hi)))
                r.check(inside, f"C14/clip/bounds/signal={form}", "every clipped value lies within [lower, upper]", params=eff, got=got)
                again = _apply(r, f"C14/clip/idempotent/signal={form}", model, form, got)
                if again is not None:
                    r.check(_same(again, got), f"C14/clip/idempotent/signal={form}", "clip(clip(x)) == clip(x)", params=eff, once=got, twice=again)
        if kind != "clip":
            # affine law on pairs, independent of the parameter values: m(a x + b y) - m(0) = a (m(x) - m(0)) + b (m(y) - m(0))
            cella = cell if form == "image" else f"C14/{kind}/affine/signal={form}"  # one cell for everything an Image signal can break
            model = _make_part(kind, par, key)
            zero = _apply(r, cella, model, form, np.zeros(shape))
            for i in range(len(sigs)):
                x, y = sigs[i], sigs[(i + 1) % len(sigs)]
                for ca, cb in ((1.0, 1.0), (2.0, -3.0)):
                    mix = _apply(r, cella, model, form, ca * x + cb * y)
                    if mix is None or zero is None or outs[i] is None or outs[(i + 1) % len(sigs)] is None:
                        continue
                    want = ca * (outs[i] - zero) + cb * (outs[(i + 1) % len(sigs)] - zero)
                    r.check(_same(mix - zero, want), cella, "the model is affine in the signal (additive and homogeneous after removing m(0))", params=eff, x=x, y=y, a=ca, b=cb)
    # updates: every subset of the updatable parameters
    news = COMB_NEW[kind] + ([(-1.0, -1.0), (2.0, 3.0)] if kind == "clip" else [1.0] if kind == "scaling" else [(1.0, 0.0)])
    for tag, dofs, names in _subsets(kind):
        cell = f"C14/{kind}/update/dofs={tag}"
        for new in news:
            vec_full = [new] if kind == "scaling" else list(new)
            vec = [vec_full[NAMES[kind].index(nm)] for nm in names]
            want_par = _updated(kind, eff, names, vec)
            if kind == "clip" and want_par[1] is not None and want_par[0] > want_par[1]:
                continue  # crossed bounds: outside the stated space
            model = _make_part(kind, par, key)
            p = np.array(vec, dtype=float)
            try:
                if dofs is None:
                    model.update_model_parameters(p)
                else:
                    model.update_model_parameters(p, dofs)
            except Exception as e:
                r.fail(cell, "every subset of updatable parameters can be addressed", dofs=dofs, parameters=vec, exception=f"{type(e).__name__}: {e}")
                continue
            r.check(np.array_equal(p, np.array(vec, dtype=float)), cell, "the parameter vector is left unchanged")
            refu = _ref_part(kind, want_par)
            for form in ("2d", "1d"):
                a = _values(SHAPES[form], 0, 1) * 2.0 - 0.5
                got = _apply(r, cell, model, form, a)
                if got is not None:
                    r.check(_same(got, refu(a)), cell, "after the update the model is the model with the addressed parameters replaced, the others kept", start=eff, dofs=dofs, parameters=vec, want_params=want_par, got=got, want=refu(a))
    if changed:
        r.nontriv(case)
    r.outcome((kind, case, digest))


# ---- combined ---------------------------------------------------------------------
def _dof_lists(seq):
    """Every list of (position, subset) pairs in increasing position order (non-empty)."""
    per_part = []
    for kind in seq:
        opts = [None]  # part not addressed
        for tag, dofs, names in _subsets(kind):
            if tag != "none":
                opts.append((tag, dofs, names))
        per_part.append(opts)
    for choice in itertools.product(*per_part):
        if all(c is None for c in choice):
            continue
        yield choice


def _run_combined(case, r):
    import darsia

    seq, var, tier = case["parts"], case["variant"], case["tier"]
    init = [COMB_INIT[var][k][i] for i, k in enumerate(seq)]
    has_lin = "linear" in seq

    def build(pars):
        return darsia.CombinedModel([_make_part(k, p) for k, p in zip(seq, pars)])

    def ref(pars, a):
        for k, p in zip(seq, pars):
            a = _ref_part(k, p)(a)
        return a

    def call_cell(form):
        if form == "image":
            return "C14/combined/call/signal=image/" + ("parts-with-linear" if has_lin else "parts-without-linear")
        return f"C14/combined/call/signal={form}/len={len(seq)}"

    nparam = sum(len(NAMES[k]) for k in seq)
    changed = False
    digest = []
    # ---- composition
    for form in FORMS:
        cell = call_cell(form)
        for rot, step in _sigparams(tier):
            a = _values(SHAPES[form], rot, step)
            model = build(init)
            r.check(model.num_parameters == nparam, "C14/combined/num_parameters", "a combined model has the parameters of its parts", got=model.num_parameters, want=nparam)
            got = _apply(r, cell, model, form, a)
            if got is None:
                continue
            want = ref(init, a)
            r.check(_same(got, want), cell, "Combined(m1..mk)(x) == mk(...m1(x)) (reference composition)", parts=seq, params=init, signal=a, got=got, want=want)
            changed = changed or not np.array_equal(want, a)
            digest.append(got.tolist())
            # the real parts applied one after the other
            seqout = _wrap(form, a)
            try:
                for k, p in zip(seq, init):
                    seqout = _make_part(k, p)(seqout)
                seqarr = np.asarray(seqout.img if form == "image" else seqout)
                r.check(_same(got, seqarr), cell, "Combined(m1..mk)(x) == the real parts applied in order", parts=seq, params=init, signal=a, got=got, want=seqarr)
            except Exception as e:
                r.fail(cell, "the parts can be applied one after the other", exception=f"{type(e).__name__}: {e}")
    # ---- a part with an additional call argument: the sequence followed by a static threshold with a
    # mask; combined(signal, mask) == threshold(parts(signal), mask)
    try:
        a_t = _values(SHAPES["2d"], 1, 1) * 2.0 - 0.5
        mask_t = (np.arange(a_t.size).reshape(a_t.shape) % 3) != 0
        thr = (0.1, 0.9)
        parts_t = [_make_part(k, p) for k, p in zip(seq, init)] + [darsia.StaticThresholdModel(thr[0], thr[1])]
        comb_t = darsia.CombinedModel(parts_t)
        inner = a_t.copy()
        for k, p in zip(seq, init):
            inner = np.asarray(_make_part(k, p)(inner), dtype=float)
        for mk_ in (None, mask_t):
            got_t = np.asarray(comb_t(a_t.copy()) if mk_ is None else comb_t(a_t.copy(), mk_.copy()))
            want_t = np.logical_and(inner > thr[0], inner < thr[1])
            if mk_ is not None:
                want_t = np.logical_and(want_t, mk_)
            r.check(got_t.shape == want_t.shape and np.array_equal(got_t.astype(bool), want_t), "C14/combined/call/extra-argument", "a combined model hands the additional call argument (mask) to the part that takes one: combined(signal, mask) == threshold(parts(signal), mask)", parts=seq, with_mask=mk_ is not None, got=got_t, want=want_t)
    except Exception as e:
        r.fail("C14/combined/call/extra-argument", "a combined model ending in a threshold part can be called with and without a mask", parts=seq, exception=f"{type(e).__name__}: {e}")
    # ---- flat parameter vector
    new = [COMB_NEW[k][i] for i, k in enumerate(seq)]
    probe = {f: _values(SHAPES[f], 1, 1) * 2.0 - 0.5 for f in ("2d", "1d")}

    def observe(cell, model, want_pars, **info):
        for form, a in probe.items():
            got = _apply(r, cell, model, form, a)
            if got is not None:
                r.check(_same(got, ref(want_pars, a)), cell, "after the update the combined model is the composition of the updated parts (consecutive slices of the flat vector, in order)", parts=seq, start=init, want_params=want_pars, got=got, want=ref(want_pars, a), **info)
        for i, (k, p) in enumerate(zip(seq, want_pars)):
            try:
                gi = model[i](probe["2d"].copy())
                r.check(_same(np.asarray(gi), _ref_part(k, p)(probe["2d"])), cell, "part i of the combined model carries slice i of the flat vector", part=i, kind=k, want_params=p, **info)
            except Exception as e:
                r.fail(cell, "parts are accessible by position", exception=f"{type(e).__name__}: {e}")

    flat = []
    for k, p in zip(seq, new):
        flat.extend([p] if k == "scaling" else list(p))
    for tag, dofs in (("none", None), ("all", "all")):
        cell = f"C14/combined/update/dofs={tag}"
        model = build(init)
        p = np.array(flat, dtype=float)
        try:
            model.update_model_parameters(p) if dofs is None else model.update_model_parameters(p, dofs)
        except Exception as e:
            r.fail(cell, "a full flat parameter vector can be distributed", parts=seq, parameters=flat, exception=f"{type(e).__name__}: {e}")
            continue
        r.check(np.array_equal(p, np.array(flat, dtype=float)), cell, "the parameter vector is left unchanged")
        observe(cell, model, new, parameters=flat, dofs=dofs)
    for choice in _dof_lists(seq):
        dofs, vec, want, segs = [], [], [], []
        partial_followed, partial, all_on_linear = False, False, False
        seen_partial = False
        for i, (k, c) in enumerate(zip(seq, choice)):
            if c is None:
                want.append(init[i])
                continue
            tag, d, names = c
            if seen_partial:
                partial_followed = True
            full_new = [new[i]] if k == "scaling" else list(new[i])
            sub = [full_new[NAMES[k].index(nm)] for nm in names]
            dofs.append((i, d))
            vec.extend(sub)
            segs.append(((i, d), list(sub)))
            want.append(_updated(k, init[i], names, sub))
            if len(names) < len(NAMES[k]):
                partial = seen_partial = True
            if d == "all" and k == "linear":
                all_on_linear = True
        if any(k == "clip" and w[1] is not None and w[0] > w[1] for k, w in zip(seq, want)):
            continue
        cls = "partial-followed" if partial_followed else "partial-last" if partial else "full"
        cell = f"C14/combined/update/dofs=list/{cls}" + ("/all-on-linear" if all_on_linear else "")
        model = build(init)
        p = np.array(vec, dtype=float)
        try:
            model.update_model_parameters(p, dofs)
        except Exception as e:
            r.fail(cell, "every list of (position, subset) pairs can be addressed with the flat vector of exactly the addressed parameters", parts=seq, dofs=dofs, parameters=vec, exception=f"{type(e).__name__}: {e}")
            continue
        observe(cell, model, want, parameters=vec, dofs=dofs)
        # the same addressed parameters listed in the reverse order of parts: the flat vector is
        # consumed in the order of the list that was given, not in the order of the parts
        if len(segs) >= 2:
            dofs_r = [d_ for d_, _ in reversed(segs)]
            vec_r = [v for _, sub_ in reversed(segs) for v in sub_]
            model_r = build(init)
            cell_r = cell + "/listed-in-reverse"
            try:
                model_r.update_model_parameters(np.array(vec_r, dtype=float), dofs_r)
            except Exception as e:
                r.fail(cell_r, "a dof list may name the parts in any order", parts=seq, dofs=dofs_r, parameters=vec_r, exception=f"{type(e).__name__}: {e}")
                continue
            observe(cell_r, model_r, want, parameters=vec_r, dofs=dofs_r)
    if changed:
        r.nontriv(case)
    r.outcome(("combined", seq, var, digest))


# ---- static threshold ---------------------------------------------------------------
def _masks(shape):
    n = int(np.prod(shape))
    part = np.array([(p % 3) != 1 for p in range(n)], dtype=bool).reshape(shape)
    return {"none": None, "partial": part, "full": np.ones(shape, dtype=bool), "empty": np.zeros(shape, dtype=bool)}


def _run_threshold(case, r):
    import darsia

    lo, hi, tier = case["lo"], case["hi"], case["tier"]
    mixed = False
    digest = []
    for form in FORMS:
        shape = SHAPES[form]
        for mname, mask in _masks(shape).items():
            for rf in (False, True):
                if form == "image":
                    cell = "C14/threshold/homogeneous/signal=image"
                else:
                    cell = f"C14/threshold/homogeneous/signal={form}/mask={'none' if mask is None else 'given'}/float={rf}"
                for rot, step in _sigparams(tier):
                    a = _values(shape, rot, step)
                    model = darsia.StaticThresholdModel(lo, hi, return_float=rf) if hi is not None else darsia.StaticThresholdModel(threshold_lower=lo, return_float=rf)
                    got = _apply(r, cell, model, form, a) if mask is None else _apply(r, cell, model, form, a, mask.copy())
                    if got is None:
                        continue
                    want = ref_threshold(a, lo, hi, mask)
                    ok = tuple(got.shape) == shape and got.dtype != object and np.array_equal(got != 0, want)
                    r.check(ok, cell, "result == (lower < x) & (x < upper) & mask, voxel by voxel", lower=lo, upper=hi, mask=mname, signal=a, got=got, want=want)
                    if want.any() and not want.all():
                        mixed = True
                    if mname == "partial" and not rf:
                        digest.append(want.tolist())
    if mixed:
        r.nontriv(case)
    r.outcome(("threshold", lo, hi, digest))


def _run_threshold_update(case, r):
    import darsia

    model = darsia.StaticThresholdModel(0.25, 1.0)
    try:
        model.update_model_parameters(np.array([0.0, 2.0]))
        refused = False
    except NotImplementedError:
        refused = True
    a = _values((2, 3), 0, 1)
    got = model(a.copy())
    want = ref_threshold(a, 0.25, 1.0, None) if refused else ref_threshold(a, 0.0, 2.0, None)
    r.check(np.array_equal(got, want), "C14/threshold/update", "a static threshold either refuses updates (and keeps its bounds) or adopts the new bounds", refused=refused, got=got, want=want)
    r.nontriv(case)
    r.outcome(("threshold-update", refused))


# ---- label-wise models ----------------------------------------------------------------
def _run_labelwise(case, r):
    import darsia

    shape = tuple(case["shape"])
    blocks = np.array(case["blocks"]).reshape(shape)
    labels = np.array([LV[b] for b in case["blocks"]], dtype=np.uint8).reshape(shape)
    uniq = sorted(set(int(v) for v in labels.ravel()))
    L = len(uniq)
    kind, tier = case["model"], case["tier"]
    n = int(np.prod(shape))
    sigs = []
    for rot, step in _sigparams(tier):
        sigs.append(np.array([LEVELS[(p * step + rot) % 6] for p in range(n)], dtype=float).reshape(shape))
    if L >= 2:
        r.nontriv(case)
    digest = []

    def regionwise(cell, got, per_label_want, a, **info):
        """got agrees on every labelled region with the homogeneous result of that label."""
        if got is None:
            return
        if not r.check(tuple(got.shape) == tuple(per_label_want[0].shape), cell, "the label-wise result has the shape of the homogeneous result", got=list(got.shape), want=list(per_label_want[0].shape)):
            return
        g = np.asarray(got).astype(float)
        for i, lab in enumerate(uniq):
            reg = labels == lab
            r.check(np.array_equal(g[reg], np.asarray(per_label_want[i]).astype(float)[reg]), cell, "on the region of a label the label-wise model equals the homogeneous model with that label's parameters", label=lab, label_index=i, labels=labels, signal=a, got=got, want_on_region=per_label_want[i][reg], **info)

    if kind == "hetlinear":
        S, O = HET_S[:L], HET_O[:L]
        forms = {"2d": lambda a: a, "rgb": lambda a: np.stack([a, 2.0 * a, a - 1.0], axis=-1), "1d": lambda a: a.ravel()}
        # smoke call: one defect that makes every call raise lands in one cell
        try:
            darsia.HeterogeneousLinearModel(labels.copy(), scaling=list(S), offset=list(O))(sigs[0].copy())
        except Exception as e:
            r.fail("C14/labelwise/hetlinear/call/usable", "the label-wise linear model can be applied to a signal of the shape of its label map", labels=labels, exception=f"{type(e).__name__}: {e}")
            r.outcome(("hetlinear", "raises", type(e).__name__))
            return
        for form, mk in forms.items():
            cell = f"C14/labelwise/hetlinear/call/signal={form}"
            lab_f = labels.ravel().copy() if form == "1d" else labels.copy()
            for a0 in sigs:
                a = mk(a0)
                model = darsia.HeterogeneousLinearModel(lab_f, scaling=list(S), offset=list(O))
                got = _apply(r, cell, model, form, a)
                if got is None:
                    continue
                wants = []
                for i in range(L):
                    hom = np.asarray(darsia.LinearModel(scaling=S[i], offset=O[i])(a.copy()))
                    r.check(_same(hom, ref_affine(a, S[i], O[i])), "C14/linear/call/signal=" + form, "homogeneous reference model is affine")
                    wants.append(hom if form != "1d" else hom.reshape(shape))
                g = got if form != "1d" else got.reshape(shape)
                regionwise(cell, g, wants, a)
                digest.append(np.asarray(got).tolist())
        # defaults and scalar parameters
        model = darsia.HeterogeneousLinearModel(labels.copy())
        got = _apply(r, "C14/labelwise/hetlinear/call/defaults", model, "2d", sigs[0])
        r.check(_same(got, sigs[0]), "C14/labelwise/hetlinear/call/defaults", "default parameters (scaling 1, offset 0) give the identity")
        model = darsia.HeterogeneousLinearModel(labels.copy(), scaling=2.0, offset=0.5)
        got = _apply(r, "C14/labelwise/hetlinear/call/defaults", model, "2d", sigs[0])
        r.check(_same(got, ref_affine(sigs[0], 2.0, 0.5)), "C14/labelwise/hetlinear/call/defaults", "scalar parameters apply to every label")
        # updates
        S2, O2 = HET_S2[:L], HET_O2[:L]
        for tag, dofs, vec, wS, wO in (
            ("none", None, S2 + O2, S2, O2),
            ("all", "all", S2 + O2, S2, O2),
            ("scaling", ["scaling"], S2, S2, O),
            ("offset", ["offset"], O2, S, O2),
            ("scaling+offset", ["scaling", "offset"], S2 + O2, S2, O2),
        ):
            cell = f"C14/labelwise/hetlinear/update/dofs={tag}"
            model = darsia.HeterogeneousLinearModel(labels.copy(), scaling=list(S), offset=list(O))
            p = np.array(vec, dtype=float)
            try:
                model.update_model_parameters(p) if dofs is None else model.update_model_parameters(p, dofs)
            except Exception as e:
                r.fail(cell, "every subset of updatable parameters can be addressed", dofs=dofs, exception=f"{type(e).__name__}: {e}")
                continue
            a = sigs[1 % len(sigs)]
            got = _apply(r, cell, model, "2d", a)
            regionwise(cell, got, [ref_affine(a, wS[i], wO[i]) for i in range(L)], a, dofs=dofs, parameters=vec)
        # signals at another resolution than the label map (the model resizes its labels): every
        # sequence of up to three calls on ONE model object over the resolutions below returns, at
        # each step, what a fresh model returns for that signal; for exact refinement the labelled
        # regions are the refined regions, so the region-wise clause is evaluated there too
        H, W = shape
        resolutions = [(H, W), (2 * H, 2 * W), (max(H - 1, 1), W + 1), (H + 1, max(2 * W - 1, 1))]

        def sig_at(res):
            i, j = np.meshgrid(np.arange(res[0]), np.arange(res[1]), indexing="ij")
            return 0.25 * ((3 * i + 5 * j) % 7).astype(float) - 0.5

        def mkmodel():
            return darsia.HeterogeneousLinearModel(labels.copy(), scaling=list(S), offset=list(O))

        fresh_at = {}
        usable = True
        for res in resolutions:
            try:
                fresh_at[res] = np.asarray(mkmodel()(sig_at(res)))
            except Exception as e:
                usable = False
                r.fail("C14/labelwise/hetlinear/resolution/usable", "the label-wise linear model can be applied to a 2-D signal at another resolution than its label map", resolution=res, labels_shape=shape, exception=f"{type(e).__name__}: {e}")
        if usable:
            fine = np.repeat(np.repeat(labels, 2, axis=0), 2, axis=1)
            a = sig_at(resolutions[1])
            okr = all(np.array_equal(fresh_at[resolutions[1]][fine == lab], ref_affine(a, S[i], O[i])[fine == lab]) for i, lab in enumerate(uniq))
            r.check(okr, "C14/labelwise/hetlinear/resolution/refined-regions", "on a signal refined by 2 the model applies each label's parameters on the refined region of that label", labels=labels)
            for n in (2, 3):
                for seq in itertools.product(range(len(resolutions)), repeat=n):
                    if len(set(seq)) == 1:
                        continue
                    model = mkmodel()
                    for step, k in enumerate(seq):
                        res = resolutions[k]
                        got = np.asarray(model(sig_at(res)))
                        if not r.check(_same(got, fresh_at[res]), "C14/labelwise/hetlinear/resolution/history", "a model object that has seen signals of other resolutions returns what a fresh model returns", sequence=[resolutions[q] for q in seq], step=step, labels_shape=shape):
                            break
    elif kind in ("het-clip", "het-scaling", "het-linear"):
        k = kind[4:]
        limg = darsia.Image(labels.copy(), space_dim=2, dimensions=[1.0, 1.5], scalar=True)
        pars = [HET_CLIP[i] if k == "clip" else HET_S[i] if k == "scaling" else (HET_S[i], HET_O[i]) for i in range(L)]
        base = _make_part(k, COMB_INIT[0][k][0])
        forms = {"2d": (limg, lambda a: a), "1d": (darsia.Image(labels.ravel().copy(), space_dim=1, dimensions=[1.0], scalar=True), lambda a: a.ravel())}
        for form, (li, mk) in forms.items():
            cell = f"C14/labelwise/hetmodel/obj={k}/signal={form}"
            try:
                het = darsia.HeterogeneousModel(base, li)
                for i, lab in enumerate(uniq):
                    if k == "clip":
                        het[lab].update(min_value=pars[i][0], max_value=pars[i][1])
                    elif k == "scaling":
                        het[lab].update(scaling=pars[i])
                    else:
                        het[lab].update(scaling=pars[i][0], offset=pars[i][1])
            except Exception as e:
                r.fail(cell, "a label-wise model can be built from a homogeneous model and its per-label copies updated", exception=f"{type(e).__name__}: {e}")
                continue
            for a0 in sigs:
                a = mk(a0)
                got = _apply(r, cell, het, form, a)
                if got is None:
                    continue
                wants = []
                for i in range(L):
                    hom = np.asarray(_make_part(k, pars[i])(a.copy()), dtype=float)
                    r.check(_same(hom, _ref_part(k, pars[i])(a)), f"C14/{k}/call/signal={form}", "homogeneous reference model matches its closed form")
                    wants.append(hom.reshape(shape))
                regionwise(cell, np.asarray(got).reshape(shape), wants, a)
                digest.append(np.asarray(got).tolist())
            # the same label-wise model on signals stored as integers (grey values / counts)
            if form == "2d":
                for dt_ in ("uint8", "uint16", "int32"):
                    ai = np.abs(np.round(4.0 * sigs[0])).astype(dt_) + (3 if k != "clip" else 0)
                    cell_i = f"C14/labelwise/hetmodel/obj={k}/signal=2d-integer"
                    try:
                        got_i = np.asarray(het(ai.copy()))
                    except Exception as e:
                        r.fail(cell_i, "the label-wise model is usable on integer-typed signals the homogeneous model accepts", dtype=dt_, exception=f"{type(e).__name__}: {e}")
                        continue
                    wants_i = [np.asarray(_make_part(k, pars[i])(ai.copy()), dtype=float).reshape(shape) for i in range(L)]
                    regionwise(cell_i, got_i.reshape(shape), wants_i, ai, dtype=dt_)
            # the prototype handed to the constructor is not changed by updating the per-label copies
            a = sigs[0]
            r.check(_same(np.asarray(base(a.copy()), dtype=float), _ref_part(k, COMB_INIT[0][k][0])(a)), cell, "updating the per-label models leaves the prototype model unchanged")
    elif kind == "het-kernel":
        limg = darsia.Image(labels.copy(), space_dim=2, dimensions=[1.0, 1.5], scalar=True)
        kern = ["gauss", 1.0]
        cell = "C14/labelwise/hetmodel/obj=kernel/signal=rgb"
        sup_sets = [[POOL[(i + j) % 6] for j in range(2 + i % 2)] for i in range(L)]
        val_sets = [[KVALS[i % 2][(i + j) % 4] for j in range(len(sup_sets[i]))] for i in range(L)]
        het = darsia.HeterogeneousModel(darsia.KernelInterpolation(darsia.GaussianKernel(gamma=kern[1])), limg)
        for i, lab in enumerate(uniq):
            het[lab].update(supports=np.array(sup_sets[i]), values=np.array(val_sets[i]))
        for a0 in sigs[: 2 if tier == "quick" else 4]:
            a = np.stack([a0, np.roll(a0.ravel(), 1).reshape(shape), 0.5 * a0], axis=-1)
            got = _apply(r, cell, het, "rgb", a)
            if got is None:
                continue
            if not r.check(tuple(got.shape) == shape, cell, "scalar result per pixel", got=list(got.shape)):
                continue
            for i, lab in enumerate(uniq):
                w = np.linalg.solve(_kmatrix(kern, sup_sets[i]), np.array(val_sets[i]))
                want = sum(w[m] * _kfun(kern, a, sup_sets[i][m]) for m in range(len(w)))
                reg = labels == lab
                tol = 1e-4 * (1.0 + float(np.sum(np.abs(w))))
                r.check(np.allclose(got[reg], want[reg], rtol=0, atol=tol), cell, "on the region of a label the label-wise model equals the kernel interpolation of that label", label=lab, got=got[reg], want=want[reg])
            digest.append(np.round(got, 3).tolist())
    else:  # label-wise static threshold
        thr = HET_THR[:L]
        has_none = any(t[1] is None for t in thr)
        uppers = None if has_none else [t[1] for t in thr]  # the API takes one upper list or None
        thr = [(t[0], None if has_none else t[1]) for t in thr]
        forms = {"2d": lambda a: a, "1d": lambda a: a.ravel()}
        for form, mk in forms.items():
            lab_f = mk(labels).copy()
            for mname, mask in _masks(lab_f.shape).items():
                cell = f"C14/labelwise/threshold/signal={form}/mask={'none' if mask is None else 'given'}"
                for a0 in sigs:
                    a = mk(a0)
                    model = darsia.StaticThresholdModel([t[0] for t in thr], uppers, labels=lab_f)
                    got = _apply(r, cell, model, form, a) if mask is None else _apply(r, cell, model, form, a, mask.copy())
                    if got is None:
                        continue
                    wants = []
                    for i in range(L):
                        hm = darsia.StaticThresholdModel(thr[i][0], thr[i][1])
                        hom = hm(a.copy()) if mask is None else hm(a.copy(), mask.copy())
                        r.check(np.array_equal(hom, ref_threshold(a, thr[i][0], thr[i][1], mask)), f"C14/threshold/homogeneous/signal={form}/mask={'none' if mask is None else 'given'}/float=False", "homogeneous reference model matches (lower < x) & (x < upper) & mask")
                        wants.append(np.asarray(hom).reshape(shape))
                    regionwise(cell, (np.asarray(got) != 0).reshape(shape), wants, a, thresholds=thr, mask=mname)
                    if mname == "partial":
                        digest.append(np.asarray(got).tolist())
                    # one threshold pair for ALL labels, in every spelling the constructor documents
                    # (scalar / per-label list, independently for the lower and the upper bound): the
                    # label-wise model is then the homogeneous model on the whole signal
                    ulo, uhi = 0.125, 0.75
                    cell_u = f"C14/labelwise/threshold-uniform/signal={form}/mask={'none' if mask is None else 'given'}"
                    want_u = ref_threshold(a, ulo, uhi, mask)
                    for tag, lo_arg, hi_arg in (("scalar,scalar", ulo, uhi), ("list,scalar", [ulo] * L, uhi), ("scalar,list", ulo, [uhi] * L), ("array,scalar", np.full(L, ulo), uhi), ("scalar,None", ulo, None)):
                        try:
                            um = darsia.StaticThresholdModel(lo_arg, hi_arg, labels=lab_f)
                        except Exception as e:  # noqa: BLE001
                            r.fail(cell_u, "label-wise threshold model accepts scalar and per-label bounds", spelling=tag, exception=f"{type(e).__name__}: {e}")
                            continue
                        got_u = _apply(r, cell_u, um, form, a) if mask is None else _apply(r, cell_u, um, form, a, mask.copy())
                        if got_u is None:
                            continue
                        w = want_u if hi_arg is not None else ref_threshold(a, ulo, None, mask)
                        r.check(np.array_equal(np.asarray(got_u) != 0, w), cell_u, "with the same bounds on every label the label-wise model equals (lower < x) & (x < upper) & mask everywhere", spelling=tag, got=np.asarray(got_u), want=w, signal=a)
    r.outcome(("labelwise", kind, case["blocks"], digest))


# ---- kernel interpolation ------------------------------------------------------------------
def _kernel_obj(kern):
    import darsia

    return darsia.GaussianKernel(gamma=kern[1]) if kern[0] == "gauss" else darsia.LinearKernel(a=kern[1])


def _query_points():
    g = [(x, y, z) for x in (0.0, 0.5, 1.0) for y in (0.0, 0.5, 1.0) for z in (0.0, 0.5, 1.0)]
    extra = [p for p in POOL if p not in g] + [(-1.0, 0.25, 2.0), (2.0, 2.0, 2.0), (0.25, -1.0, 0.0), (-0.5, -0.5, -0.5), (0.25, 0.75, 0.5), (0.75, 0.25, 1.5)]
    q = g + extra
    return np.array(q[:36], dtype=float)


def _run_kernel(case, r):
    import darsia

    kern = case["kernel"]
    kname = kern[0]
    idx = case["supports"] if case["order"] == "sorted" else list(reversed(case["supports"]))
    sup = [POOL[i] for i in idx]
    n = len(sup)
    vals = KVALS[case["values"]][:n]
    order = case["order"]
    r.nontriv(case)
    Q = _query_points()
    assert Q.shape == (36, 3)
    signals = {2: Q, 3: Q.reshape(4, 9, 3)}
    singles = [np.array(sup[0], dtype=float), Q[13]] + [np.array(s, dtype=float) for s in sup[1:]] + [Q[30]]
    thorough = case["tier"] == "thorough"
    n_single = len(singles) if thorough else 2

    def reference(kern_, sup_, vals_):
        w = np.linalg.solve(_kmatrix(kern_, sup_), np.array(vals_, dtype=float))
        return w, (lambda x: sum(w[m] * _kfun(kern_, x, sup_[m]) for m in range(len(w))))

    def evaluate(cell, model, x):
        try:
            out = model(np.array(x, dtype=float))
        except Exception as e:
            r.fail(cell, "the interpolation can be evaluated on this signal shape", shape=list(np.shape(x)), exception=f"{type(e).__name__}: {e}")
            return None
        return np.asarray(out, dtype=float)

    def compare(cell_rep, cell_acc, model, kern_, sup_, vals_, ranks, nsingles, **info):
        """Reproduction at the supports (as given by the user, in the user's order) and
        agreement with the float64 interpolant on the requested signal ranks."""
        w, f = reference(kern_, sup_, vals_)
        tol = 1e-4 * (1.0 + float(np.sum(np.abs(w))))
        ns = len(sup_)
        # one pixel list: the supports followed by the query points
        x = np.vstack([np.array(sup_, dtype=float), Q])
        got = evaluate(cell_rep, model, x)
        if got is not None and r.check(got.shape == (ns + len(Q),), cell_rep, "a pixel list (N, 3) gives N values", got=list(got.shape)):
            r.check(np.allclose(got[:ns], vals_, rtol=0, atol=tol), cell_rep, "the interpolation reproduces the prescribed value at every support point", kernel=kern_, supports=sup_, values=vals_, got=got[:ns], **info)
            want = f(x)
            r.check(np.allclose(got, want, rtol=0, atol=tol), cell_acc.format(rank=2), "model(signal) equals the plain kernel sum of the float64 interpolant", kernel=kern_, supports=sup_, values=vals_, got=got, want=want, **info)
        if 3 in ranks:
            x = signals[3]
            got = evaluate(cell_acc.format(rank=3), model, x)
            if got is not None:
                want = f(x)
                r.check(got.shape == want.shape and np.allclose(got, want, rtol=0, atol=tol), cell_acc.format(rank=3), "model(signal) equals the plain kernel sum of the float64 interpolant", kernel=kern_, supports=sup_, values=vals_, got=got, want=want, **info)
        for x in singles[:nsingles]:
            got = evaluate(cell_acc.format(rank=1), model, x)
            if got is not None:
                want = f(x)
                r.check(got.shape == () and abs(float(got) - float(want)) <= tol, cell_acc.format(rank=1), "model(single pixel) equals the plain kernel sum of the float64 interpolant", kernel=kern_, supports=sup_, values=vals_, pixel=x, got=got, want=want, **info)
        return w

    # ---- construction, reproduction, accelerated evaluation through the model
    model = darsia.KernelInterpolation(_kernel_obj(kern), np.array(sup), np.array(vals))
    w = compare(f"C14/kernel/reproduce/{kname}/order={order}", f"C14/kernel/accelerated/{kname}/rank={{rank}}", model, kern, sup, vals, (2, 3), n_single)
    # ---- accelerated linear combination against the plain sum (DarSIA's own and the reference), arbitrary weights
    kobj = _kernel_obj(kern)
    sup32 = np.array(sup, dtype=np.float32)
    w32 = np.array(KW[:n], dtype=np.float32)
    tol = 1e-4 * (1.0 + float(np.sum(np.abs(w32))))
    for rank, x in list(signals.items()) + [(1, s) for s in singles[: n_single - 1]]:
        cell = f"C14/kernel/accelerated/{kname}/rank={rank}"
        x32 = np.array(x, dtype=np.float32)
        try:
            fast = np.asarray(kobj.linear_combination(x32, sup32, w32), dtype=float)
        except Exception as e:
            r.fail(cell, "the accelerated evaluation supports this signal shape", shape=list(x32.shape), exception=f"{type(e).__name__}: {e}")
            continue
        plain = np.asarray(darsia.BaseKernel.linear_combination(kobj, x32, sup32, w32), dtype=float)
        want = sum(float(w32[m]) * _kfun(kern, x, sup[m]) for m in range(n))
        r.check(fast.shape == np.shape(want) and np.allclose(fast, plain, rtol=0, atol=tol), cell, "accelerated linear_combination == plain kernel sum (BaseKernel)", kernel=kern, supports=sup, weights=KW[:n], got=fast, want=plain)
        r.check(fast.shape == np.shape(want) and np.allclose(fast, want, rtol=0, atol=tol), cell, "accelerated linear_combination == sum_n w_n k(x, s_n) (float64 reference)", kernel=kern, supports=sup, weights=KW[:n], got=fast, want=want)
    # ---- updates: every subset of {kernel, values}
    new_vals = KNEW[:n]
    new_kern = None
    for cand in (["gauss", 1.0], ["gauss", 0.5], ["linear", 1.0]):
        if cand != kern and _well_conditioned(cand, sup):
            new_kern = cand
            break
    for tag, dofs in (("none", None), ("all", "all"), ("kernel", ["kernel"]), ("values", ["values"]), ("kernel+values", ["kernel", "values"])):
        with_kernel = tag != "values"
        with_values = tag != "kernel"
        if with_kernel and new_kern is None:
            continue
        cell = f"C14/kernel/update/dofs={tag}" + (f"/order={order}" if with_values else "")
        model = darsia.KernelInterpolation(_kernel_obj(kern), np.array(sup), np.array(vals))
        params = ([_kernel_obj(new_kern)] if with_kernel else []) + ([float(v) for v in new_vals] if with_values else [])
        if not with_kernel:
            params = np.array(params)
        try:
            model.update_model_parameters(params) if dofs is None else model.update_model_parameters(params, dofs)
        except Exception as e:
            r.fail(cell, "every subset of updatable parameters can be addressed", dofs=dofs, exception=f"{type(e).__name__}: {e}")
            continue
        compare(cell, cell, model, new_kern if with_kernel else kern, sup, new_vals if with_values else vals, (2, 3) if thorough else (2,), 0, dofs=dofs, start_kernel=kern, start_values=vals)
    r.outcome(("kernel", case, np.round(w, 4).tolist()))


# ---- polynomial approximation space ---------------------------------------------------------
def _rank(rows):
    """Exact rank over the rationals."""
    M = [[Fraction(v) for v in row] for row in rows]
    rank, ncol = 0, len(M[0]) if M else 0
    for c in range(ncol):
        piv = next((i for i in range(rank, len(M)) if M[i][c] != 0), None)
        if piv is None:
            continue
        M[rank], M[piv] = M[piv], M[rank]
        for i in range(len(M)):
            if i != rank and M[i][c] != 0:
                f = M[i][c] / M[rank][c]
                M[i] = [a - f * b for a, b in zip(M[i], M[rank])]
        rank += 1
    return rank


def _run_poly(case, r):
    import darsia

    d = case["degree"]
    cell = f"C14/polynomial/degree={d}"
    r.nontriv(case)
    space = darsia.PolynomialApproximationSpace(d)
    want_size = (d + 1) * (d + 2) // 2
    if not r.check(space.size == want_size, cell, "dimension of the space is (d+1)(d+2)/2", got=space.size, want=want_size):
        return
    pts = np.array([(x, y) for x in range(6) for y in range(6)], dtype=float)
    cols = []
    for k in range(space.size):
        v = np.asarray(space.basis(pts, k), dtype=float)
        if not r.check(v.shape == (36,) and np.array_equal(v, np.round(v)), cell, "basis functions are integer valued on integer points (polynomials with unit coefficients)", k=k, got=v):
            return
        cols.append([int(x) for x in v])
        # other point-array layouts give the same function
        v2 = np.asarray(space.basis(pts.reshape(6, 6, 2), k), dtype=float)
        r.check(v2.shape == (6, 6) and np.array_equal(v2.ravel(), v), cell, "basis(x, k) is evaluated point-wise for any leading shape", k=k)
        v1 = np.asarray(space.basis(pts[7], k), dtype=float)
        r.check(v1.shape == () and float(v1) == float(v[7]), cell, "basis(x, k) on a single point", k=k)
    allb = space(pts)
    r.check(len(allb) == space.size and all(np.array_equal(np.asarray(allb[k], dtype=float), np.array(cols[k], dtype=float)) for k in range(min(len(allb), space.size))), cell, "space(x) lists basis(x, k) for k < size")
    mono = [(i, j) for i in range(d + 1) for j in range(d + 1 - i)]
    mcols = [[int(x) ** i * int(y) ** j for x, y in pts] for i, j in mono]
    B = [list(row) for row in zip(*cols)]  # 36 x size
    M = [list(row) for row in zip(*mcols)]
    BM = [b + m for b, m in zip(B, M)]
    rb, rm, rbm = _rank(B), _rank(M), _rank(BM)
    # identify the functions for the report (exponent pairs up to 2d)
    found = []
    for c in cols:
        hit = [(i, j) for i in range(2 * d + 2) for j in range(2 * d + 2) if c == [int(x) ** i * int(y) ** j for x, y in pts]]
        found.append(hit[0] if hit else None)
    r.check(rm == want_size, cell, "reference monomials are linearly independent on the 6x6 grid", got=rm)
    r.check(rb == want_size, cell, "the basis functions are linearly independent (rank (d+1)(d+2)/2)", rank=rb, want=want_size, basis_exponents=found)
    r.check(rbm == rm == rb, cell, "the basis spans exactly the polynomials x^i y^j, i + j <= d (equal column spaces, exact rational rank)", rank_basis=rb, rank_monomials=rm, rank_joint=rbm, basis_exponents=found, wanted_exponents=mono)
    r.outcome(("poly", d, found))
