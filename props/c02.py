"""C02 — extracted sub-images keep data and placement (E-state BFS + assembly lattice).

State = one live Image (full content digest).  Transitions = every non-empty
subregion / time_slice / time_interval of the current image.  Data is provenance-coded
(each entry is its own flat index in the base array), so every result says where it
came from; the reference model is the composition of index offsets.  All numbers are
dyadic, so every comparison is exact.
"""

from __future__ import annotations

import collections
import datetime
import itertools

import numpy as np

from mc.canon import digest as _digest


def digest(img):
    """Content digest of an image; the origin enters by value (an origin spelled with ints and the
    same corner spelled with floats are the same placement -- the storage type is not content)."""
    import copy

    if hasattr(img, "origin") and np.asarray(img.origin).dtype != float:
        c = copy.copy(img)
        c.origin = type(img.origin)(np.asarray(img.origin, dtype=float))
        return _digest(c)
    return _digest(img)

ID = "C02"
LEVEL = "model_checking"
EXHAUSTIVE = True
RULE = (
    "roots: base images {2-D, 3-D} x payload {scalar, vector(2)} x time {single, dated series(3), relative-time series(3), series without "
    "time info} x origin {default, user (floats), user spelled with ints}; BFS over the real Image objects with transitions = every non-empty voxel box (tuple of slices), "
    "time_slice(k), time_interval(every non-empty slice); on every transition the alternative ROI forms (open-ended None slices, VoxelArray "
    "corners incl. corners outside the image, CoordinateArray corners at +1/4 / +3/4 voxel and up to 2 voxels outside) must give the "
    "identical image; search runs to a fixpoint (all nesting depths). Assembly lattice: 2..5 single images x {dates, relative times, "
    "neither} x {append with offsets 0 / 2.5, stack} then every time_slice / time_interval. Non-trivial = transition whose result is a "
    "strict sub-block or an assembly; distinct = distinct (root, reference block)."
)
ASSUMPTIONS = ["slice strides other than 1 are outside the property's quantifier (negative bounds are included as spellings of the same range)", "dyadic voxel sizes/origins: exact comparisons"]

BASES = {
    "quick": {2: (3, 4), 3: (2, 3, 2)},
    "thorough": {2: (4, 5), 3: (3, 4, 3)},
}
D0 = datetime.datetime(2023, 5, 1, 12, 0, 0)
DSTEP = datetime.timedelta(hours=25, milliseconds=250)  # more than a day, with a sub-second part (exact in binary)


def describe(tier):
    return {"base_shapes": BASES[tier], "time_steps": 3, "search": "fixpoint (no depth bound)", "assembly_lengths": [2, 3, 4, 5]}


def cases(tier):
    out = []
    for dim in (2, 3):
        for payload in ("scalar", "vector"):
            for tk in ("single", "dated", "times", "notime"):
                for origin in ("default", "user", "user-int"):
                    if origin == "user-int" and tk in ("times", "notime"):
                        continue
                    out.append({"kind": "bfs", "dim": dim, "shape": list(BASES[tier][dim]), "payload": payload, "time": tk, "origin": origin})
    # vector payload with exactly ONE component (array shape (..., T, 1)): the time axis must be
    # found from the flags, not from the number of components
    for dim in (2, 3):
        for tk in ("single", "dated", "times"):
            out.append({"kind": "bfs", "dim": dim, "shape": list(BASES[tier][dim]), "payload": "vector1", "time": tk, "origin": "user"})
    for dim in (2, 3):
        for payload in ("scalar", "vector"):
            for n in (2, 3, 4, 5):
                # "dated-ref": a shared explicit reference date that is NOT the first image's date;
                # "append-chunks": the images after the first are appended as series of two slices
                # "dated+times": images carrying a date AND an independently given relative time; an
                # explicit offset (also 0) keeps those times (+ offset), as the library does today
                for tk in ("dated", "dated-ref", "times", "notime", "dated+times"):
                    for how in ("append0", "append2.5", "stack", "append-chunks"):
                        if how == "append-chunks" and n < 3:
                            continue
                        if tk == "dated+times" and how not in ("append0", "append2.5"):
                            continue
                        out.append({"kind": "assemble", "dim": dim, "payload": payload, "n": n, "time": tk, "how": how})
    out.sort(key=lambda c: (c["kind"] != "assemble", c["dim"], c.get("n", 0)))
    return out


# ------------------------------------------------------------------------- base images
def base_image(dim, shape, payload, tk, origin):
    import darsia

    full = tuple(shape)
    kw = {"space_dim": dim, "scalar": payload == "scalar"}
    nt = 0
    if tk != "single":
        nt = 3
        full = full + (nt,)
        kw["series"] = True
        if tk == "dated":
            kw["date"] = [D0 + k * DSTEP for k in range(nt)]
            kw["reference_date"] = D0 - datetime.timedelta(hours=1)
        elif tk == "times":
            kw["time"] = [0.0, 2.5, 7.0]
    if payload in ("vector", "vector1"):
        full = full + ((2,) if payload == "vector" else (1,))
    data = np.arange(int(np.prod(full)), dtype=float).reshape(full)
    vs = [0.5, 2.0, 0.25][:dim]
    kw["dimensions"] = [vs[a] * shape[a] for a in range(dim)]
    if origin == "user":
        kw["origin"] = [3.0, -2.0, 5.0][:dim]
    elif origin == "user-int":
        # the same corner spelled with Python ints (an integer-typed origin array), while boxes
        # start at fractional physical offsets (voxel sizes 0.5 and 0.25)
        kw["origin"] = [3, -2, 5][:dim]
    kw["name"] = "base"
    return darsia.Image(data, **kw)


def subranges(n):
    return [(a, b) for a in range(n) for b in range(a + 1, n + 1)]


# ------------------------------------------------------------------------------- BFS
def run_bfs(case, r):
    import darsia

    dim, shape, payload, tk, origin = case["dim"], tuple(case["shape"]), case["payload"], case["time"], case["origin"]
    base = base_image(dim, shape, payload, tk, origin)
    base_cs = base.coordinatesystem
    base_img = base.img.copy()
    nt = 3 if tk != "single" else 0
    tag = f"dim={dim}"

    def cell(op, aspect):
        if aspect == "time":
            return f"C02/{op}/{aspect}/{tk}"
        return f"C02/{op}/{aspect}/{tag}/{payload}"

    # reference state: (lo tuple, hi tuple, tsel) ; tsel: None (not a series), ("list", [idx..]) or ("one", idx)
    ref0 = (tuple([0] * dim), shape, ("list", tuple(range(nt))) if nt else None)
    # the base image's own relative times, from the reference model (not from the library)
    if tk == "dated":
        r.check(list(base.time) == [3600.0 + k * 90000.25 for k in range(nt)], "C02/construct/time/dated", "relative time of a dated series = (date - reference date) in seconds", got=base.time)
    elif tk == "times":
        r.check(list(base.time) == [0.0, 2.5, 7.0], "C02/construct/time/times", "explicit relative times are stored as given", got=base.time)

    def ref_step(ref, op):
        lo, hi, ts = ref
        if op[0] == "sub":
            nlo = tuple(lo[a] + op[1][a][0] for a in range(dim))
            nhi = tuple(lo[a] + op[1][a][1] for a in range(dim))
            return (nlo, nhi, ts)
        if op[0] == "ts":
            return (lo, hi, ("one", ts[1][op[1]]))
        if op[0] == "ti":
            return (lo, hi, ("list", ts[1][op[1][0] : op[1][1]]))
        raise AssertionError(op)

    def ref_block(ref):
        lo, hi, ts = ref
        idx = tuple(slice(lo[a], hi[a]) for a in range(dim))
        blk = base_img[idx]
        if ts is not None:
            if ts[0] == "one":
                blk = np.take(blk, ts[1], axis=dim)
            else:
                blk = np.take(blk, list(ts[1]), axis=dim)
        return blk

    def verify(img, ref, op):
        lo, hi, ts = ref
        opn = {"sub": "subregion", "ts": "time_slice", "ti": "time_interval"}[op[0]]
        want = ref_block(ref)
        r.check(isinstance(img, darsia.Image) and img.img.shape == want.shape and np.array_equal(img.img, want), cell(opn, "data"), "result holds exactly the corresponding block of the base data (components in their slots)", ref=ref, got_shape=list(img.img.shape), want_shape=list(want.shape))
        ext = tuple(hi[a] - lo[a] for a in range(dim))
        # placement: every voxel corner of the result sits where the base has it
        V = np.array(list(itertools.product(*[range(e + 1) for e in ext])), dtype=int)
        got = np.asarray(img.coordinatesystem.coordinate(V), dtype=float)
        wantc = np.asarray(base_cs.coordinate(V + np.array(lo)), dtype=float)
        r.check(np.array_equal(got, wantc), cell(opn, "placement"), "each result voxel has the physical coordinate of the base voxel it was taken from", ref=ref, got_origin=np.asarray(img.origin), want_origin=wantc[0])
        r.check([float(x) for x in img.voxel_size] == [float(x) for x in base.voxel_size], cell(opn, "placement"), "voxel size unchanged", got=img.voxel_size)
        r.check([float(x) for x in img.dimensions] == [float(base.voxel_size[a] * ext[a]) for a in range(dim)], cell(opn, "placement"), "dimensions = extent * voxel size", got=img.dimensions)
        # time stamps
        if ts is None:
            okt = img.series is False and img.time is None and img.date is None
        elif ts[0] == "one":
            okt = img.series is False and img.time == base.time[ts[1]] and img.date == base.date[ts[1]]
        else:
            okt = img.series is True and list(img.time) == [base.time[k] for k in ts[1]] and list(img.date) == [base.date[k] for k in ts[1]] and img.time_num == len(ts[1])
        r.check(okt, cell(opn, "time"), "time stamps / dates of the retained slices are the base's at the decoded time indices; series flag matches", ref=ref, time=img.time, date=[str(d) for d in img.date] if isinstance(img.date, list) else str(img.date))
        r.check(img.reference_date == base.reference_date, cell(opn, "time"), "reference date is inherited")
        okf = img.space_dim == dim and img.scalar == (payload == "scalar") and img.indexing == base.indexing and img.name == base.name and len(img.img.shape) == dim + (1 if img.series else 0) + (0 if payload == "scalar" else 1)
        r.check(okf, cell(opn, "flags"), "space_dim / scalar / series flags are consistent with the array rank; name kept")

    def apply(img, op):
        if op[0] == "sub":
            return img.subregion(tuple(slice(a, b) for a, b in op[1]))
        if op[0] == "ts":
            return img.time_slice(op[1])
        return img.time_interval(slice(op[1][0], op[1][1]))

    def alt_forms(img, op):
        """Other spellings of the same selection; each must give the identical image."""
        n = list(img.num_voxels)
        if op[0] == "ti":
            a, b = op[1]
            T = img.time_num
            yield "time_interval", "negative-bounds", lambda: img.time_interval(slice(a - T, None if b == T else b - T))
            if a == 0:
                yield "time_interval", "open-start", lambda: img.time_interval(slice(None, b))
            if b == img.time_num:
                yield "time_interval", "open-stop", lambda: img.time_interval(slice(a, None))
            return
        if op[0] != "sub":
            return
        box = op[1]
        if any(a == 0 or b == n[k] for k, (a, b) in enumerate(box)):
            yield "subregion", "open-ended-slices", lambda: img.subregion(tuple(slice(None if a == 0 else a, None if b == n[k] else b) for k, (a, b) in enumerate(box)))
        # the same ranges counted from the end (Python's negative bounds)
        yield "subregion", "negative-bounds", lambda: img.subregion(tuple(slice(a - n[k], None if b == n[k] else b - n[k]) for k, (a, b) in enumerate(box)))
        yield "subregion", "negative-stop", lambda: img.subregion(tuple(slice(a, None if b == n[k] else b - n[k]) for k, (a, b) in enumerate(box)))
        lo = np.array([a for a, _ in box])
        hi = np.array([b for _, b in box])
        yield "subregion", "voxel-corners", lambda: img.subregion(darsia.make_voxel(np.vstack([lo, hi])))
        touch_lo = np.array([a == 0 for a, _ in box])
        touch_hi = np.array([b == n[k] for k, (_, b) in enumerate(box)])
        if touch_lo.any() or touch_hi.any():
            lo2 = np.where(touch_lo, lo - 2, lo)
            hi2 = np.where(touch_hi, hi + 1, hi)
            yield "subregion", "voxel-corners-outside", lambda: img.subregion(darsia.make_voxel(np.vstack([hi2, lo2])))
        cs = img.coordinatesystem
        for off in (0.25, 0.75):
            P = cs.coordinate(np.vstack([lo + off, hi + off]))
            yield "subregion", f"coordinate-corners+{off}", (lambda P=P: img.subregion(darsia.make_coordinate(np.asarray(P))))
            # physical box == voxel box of its converted corners
            yield "subregion", f"coordinate-vs-converted-voxels+{off}", (lambda P=P: img.subregion(darsia.make_voxel(np.asarray(cs.voxel(darsia.make_coordinate(np.asarray(P)))))))
        # the box marked by ALL its corners (more than two points, in product order and reversed)
        allc = np.array(list(itertools.product(*[(lo[k] + 0.25, hi[k] + 0.25) for k in range(len(lo))])))
        Pall = cs.coordinate(allc)
        yield "subregion", "coordinate-all-corners", (lambda Pall=Pall: img.subregion(darsia.make_coordinate(np.asarray(Pall))))
        yield "subregion", "coordinate-all-corners-cyclic", (lambda Pall=Pall: img.subregion(darsia.make_coordinate(np.roll(np.asarray(Pall), 1, axis=0))))
        if touch_lo.any() or touch_hi.any():
            lo3 = np.where(touch_lo, lo - 1.75, lo + 0.5)
            hi3 = np.where(touch_hi, hi + 1.25, hi + 0.5)
            P = cs.coordinate(np.vstack([lo3, hi3]))
            yield "subregion", "coordinate-corners-outside", (lambda P=P: img.subregion(darsia.make_coordinate(np.asarray(P))))

    def ops_of(img):
        out = []
        n = list(img.num_voxels)
        for box in itertools.product(*[subranges(k) for k in n]):
            out.append(("sub", [list(ab) for ab in box]))
        if img.series:
            for k in range(img.time_num):
                out.append(("ts", k))
            for a, b in subranges(img.time_num):
                out.append(("ti", [a, b]))
        return out

    # ---- explicit-state search to a fixpoint
    # the reachable set of a correct implementation is exactly boxes x time selections
    nbox = int(np.prod([len(subranges(k)) for k in shape]))
    ntsel = 1 if nt == 0 else (len(subranges(nt)) + nt)
    k0 = digest(base)
    seen = {k0: ref0}
    block_digest = {ref0: k0}
    frontier = collections.deque([(base, ref0, 0)])
    transitions, maxdepth, samples = 0, 0, []
    while frontier:
        img, ref, depth = frontier.popleft()
        pre = digest(img)
        for op in ops_of(img):
            out = apply(img, op)
            transitions += 1
            nref = ref_step(ref, op)
            verify(out, nref, op)
            k = digest(out)
            if nref != ref:
                r.nontriv((case["dim"], payload, tk, origin, nref))
            # differential oracle: the same block reached by another history must be content-identical
            if nref in block_digest:
                r.check(block_digest[nref] == k, f"C02/history-independence/{tag}/{payload}", "two extraction histories selecting the same block yield content-identical images", ref=nref)
            else:
                block_digest[nref] = k
            # alternative ROI spellings: on every state whose time selection is the root's (the
            # spatial code path does not look at the time axis; other time selections reach
            # the same boxes again through the plain slice form)
            for opn, form, call in (alt_forms(img, op) if (ref[2] == ref0[2] or op[0] == "ti") else ()):
                try:
                    alt = call()
                except Exception as e:  # noqa: BLE001
                    r.fail(f"C02/{opn}/form={form}/{tag}", "every ROI form of a non-empty selection is accepted", op=op, exception=repr(e))
                    continue
                transitions += 1
                r.check(digest(alt) == k, f"C02/{opn}/form={form}/{tag}", "the alternative ROI form selects the identical image (data and metadata)", op=op, num_voxels=img.num_voxels, got_shape=list(alt.img.shape), want_shape=list(out.img.shape), got_origin=np.asarray(alt.origin), want_origin=np.asarray(out.origin))
            if k not in seen and len(seen) <= nbox * ntsel:
                seen[k] = nref
                frontier.append((out, nref, depth + 1))
                maxdepth = max(maxdepth, depth + 1)
                if len(samples) < 2 and depth >= 1:
                    samples.append({"root": case, "reached_block": nref})
        # extraction must not modify the parent
        r.check(digest(img) == pre, f"C02/parent-unchanged/{tag}", "extractions leave the parent image untouched")
    r.count("states", len(seen))
    r.count("transitions", transitions)
    r.count("traces", transitions)
    r.count("fixpoints_reached", 1)
    r.outcome((case, len(seen)))
    r.notes.setdefault("samples", samples)
    # the reachable set is exactly boxes x time selections: anything else means merged or split states
    r.check(len(seen) == nbox * ntsel, f"C02/state-space/{tag}/{payload}/{tk}", "reachable states = (#boxes) x (#time selections): no two selections collapse and none splits", states=len(seen), want=nbox * ntsel)


# ------------------------------------------------------------------- assembly lattice
def run_assemble(case, r):
    import darsia

    dim, payload, n, tk, how = case["dim"], case["payload"], case["n"], case["time"], case["how"]
    shape = (2, 3) if dim == 2 else (2, 2, 3)
    full = shape + ((2,) if payload == "vector" else ())
    vs = [0.5, 2.0, 0.25][:dim]
    singles = []
    for k in range(n):
        kw = {"space_dim": dim, "scalar": payload == "scalar", "dimensions": [vs[a] * shape[a] for a in range(dim)], "origin": [3.0, -2.0, 5.0][:dim]}
        if tk == "dated":
            kw["date"] = D0 + k * DSTEP
            kw["reference_date"] = D0
        elif tk == "dated-ref":
            kw["date"] = D0 + k * DSTEP
            kw["reference_date"] = D0 - datetime.timedelta(hours=1)
        elif tk == "dated+times":
            kw["date"] = D0 + k * DSTEP
            kw["reference_date"] = D0
            kw["time"] = 5.0 * k + 1.0
        elif tk == "times":
            kw["time"] = 10.0 * k
        data = (1000 * k + np.arange(int(np.prod(full)), dtype=float)).reshape(full)
        singles.append(darsia.Image(data, **kw))
    originals = [s.copy() for s in singles]
    offset = {"append0": 0, "append2.5": 2.5, "stack": None, "append-chunks": 0}[how]
    if how == "stack":
        series = darsia.stack([s.copy() for s in singles])
    elif how == "append-chunks":
        series = singles[0].copy()
        rest = singles[1:]
        for i in range(0, len(rest), 2):
            chunk = rest[i : i + 2]
            series.append(chunk[0].copy() if len(chunk) == 1 else darsia.stack([c.copy() for c in chunk]), offset=0)
    else:
        series = singles[0].copy()
        for s in singles[1:]:
            series.append(s.copy(), offset=offset)
    r.nontriv(case)
    cellb = f"C02/assemble/{how}/{tk}"
    r.check(series.series and series.time_num == n and series.img.shape[dim] == n, cellb + "/shape", "assembled image is a series of n slices", shape=list(series.img.shape))
    if not (series.series and series.time_num == n):
        return

    def want_time(k):
        # relative time of original k (reference model: seconds since the shared reference
        # date, or the explicit time), shifted by the offset handed to append()
        if tk == "notime":
            return None
        t = 90000.25 * k if tk == "dated" else (3600.0 + 90000.25 * k if tk == "dated-ref" else (5.0 * k + 1.0 if tk == "dated+times" else 10.0 * k))
        return t + (offset if (offset and k > 0) else 0)

    for k in range(n):
        sl = series.time_slice(k)
        o = originals[k]
        r.check(np.array_equal(sl.img, o.img), cellb + "/data", "time_slice(k) of the assembled series returns the data of original k", k=k)
        r.check(sl.date == o.date, cellb + "/date", "... with the date of original k", k=k, got=str(sl.date), want=str(o.date))
        if tk in ("dated", "dated-ref", "dated+times"):
            r.check(sl.reference_date == o.reference_date, cellb + "/time", "... with the shared reference date of the originals", k=k, got=str(sl.reference_date), want=str(o.reference_date))
        r.check(sl.time == want_time(k), cellb + "/time", "... with the relative time of original k (+ offset given to append)", k=k, got=sl.time, want=want_time(k))
        r.check(np.array_equal(np.asarray(sl.origin), np.asarray(o.origin)) and [float(x) for x in sl.dimensions] == [float(x) for x in o.dimensions] and sl.scalar == o.scalar and not sl.series, cellb + "/placement", "... and its placement and payload layout")
    for a, b in subranges(n):
        iv = series.time_interval(slice(a, b))
        ok = iv.series and iv.time_num == b - a and list(iv.time) == [want_time(k) for k in range(a, b)] and list(iv.date) == [originals[k].date for k in range(a, b)]
        okd = all(np.array_equal(np.take(iv.img, j, axis=dim), originals[a + j].img) for j in range(b - a))
        r.check(ok and okd, cellb + "/time_interval", "time_interval of the assembled series returns the originals a..b-1 with their stamps", a=a, b=b, time=iv.time)
    # ---- strided intervals (every 2nd / 3rd slice, bounded and open-ended): data AND stamps are those
    # of the originals a, a+step, ...
    for step in (2, 3):
        for a in range(n):
            for b in (None, n - 1):
                ks = list(range(n))[slice(a, b, step)]
                if not ks:
                    continue
                try:
                    iv = series.time_interval(slice(a, b, step))
                    ok = iv.series and iv.time_num == len(ks) and list(iv.time) == [want_time(k) for k in ks] and list(iv.date) == [originals[k].date for k in ks]
                    okd = iv.img.shape[dim] == len(ks) and all(np.array_equal(np.take(iv.img, j, axis=dim), originals[k].img) for j, k in enumerate(ks))
                    r.check(ok and okd, cellb + "/time_interval-strided", "time_interval(a:b:step) of the assembled series returns the originals a, a+step, ... with their stamps", a=a, b=b, step=step, time=iv.time, want=[want_time(k) for k in ks])
                except Exception as e:  # noqa: BLE001
                    r.fail(cellb + "/time_interval-strided", "a strided time interval is a legal selection", a=a, b=b, step=step, exception=repr(e)[:300])
    # ---- the assembled series is itself an operand: stacking it with one more image (and appending to
    # a copy) leaves the series as it was, and the longer series still returns the originals
    pre_series = digest(series)
    kw_x = {"space_dim": dim, "scalar": payload == "scalar", "dimensions": [vs[a] * shape[a] for a in range(dim)], "origin": [3.0, -2.0, 5.0][:dim]}
    if tk in ("dated", "dated-ref", "dated+times"):
        kw_x["date"] = D0 + n * DSTEP
        kw_x["reference_date"] = originals[0].reference_date
    elif tk == "times":
        kw_x["time"] = 10.0 * n
    extra = darsia.Image((1000 * n + np.arange(int(np.prod(full)), dtype=float)).reshape(full), **kw_x)
    try:
        longer = darsia.stack([series, extra.copy()])
        r.check(digest(series) == pre_series, cellb + "/operand-unchanged", "stacking an assembled series with a further image leaves the series unchanged (slices, dates, times)", time_num=series.time_num, dates=[str(d) for d in (series.date or [])])
        r.check(longer.time_num == n + 1 and all(np.array_equal(longer.time_slice(k).img, originals[k].img) for k in range(n)) and np.array_equal(longer.time_slice(n).img, extra.img), cellb + "/data", "the longer series returns the originals and the further image")
    except Exception as e:  # noqa: BLE001
        r.fail(cellb + "/operand-unchanged", "an assembled series can be stacked with a further image", exception=repr(e)[:300])
    # ---- originals of different storage types (narrower first): every slice comes back with its values
    if payload == "scalar" and tk == "times" and how in ("stack", "append0"):
        for dts in (("uint8", "float64"), ("float32", "float64"), ("uint8", "uint16", "float32")):
            mixed = []
            for k, dt_ in enumerate(dts):
                base_k = (np.arange(int(np.prod(full))) % 200 + 1 + k).reshape(full)
                data_k = base_k.astype(dt_) if dt_.startswith("u") else (base_k + 1.0 / 3.0 + 2.0**-30 * k).astype(dt_)
                mixed.append(darsia.Image(data_k, time=10.0 * k, **{kk: vv for kk, vv in kw_x.items() if kk not in ("time", "date", "reference_date")}))
            try:
                ser = darsia.stack([m_.copy() for m_ in mixed]) if how == "stack" else None
                if ser is None:
                    ser = mixed[0].copy()
                    for m_ in mixed[1:]:
                        ser.append(m_.copy(), offset=0)
                okm = all(np.array_equal(np.asarray(ser.time_slice(k).img, dtype=np.float64), np.asarray(mixed[k].img, dtype=np.float64)) for k in range(len(dts)))
                r.check(okm, cellb + "/mixed-dtypes", "slices of a series assembled from images of different storage types carry the values of the originals exactly", dtypes=dts, series_dtype=str(ser.img.dtype))
            except Exception as e:  # noqa: BLE001
                r.fail(cellb + "/mixed-dtypes", "images of different storage types can be assembled", dtypes=dts, exception=repr(e)[:300])
    r.outcome((case, [str(t) for t in series.time]))


def run_case(case, r):
    if case["kind"] == "bfs":
        run_bfs(case, r)
    else:
        run_assemble(case, r)
