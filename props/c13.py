"""C13 — concentration analysis zeroes the baseline and applies its stages in order.

E-lattice over configurations of ``darsia.ConcentrationAnalysis`` with 2-call histories
inside every lattice point.  Two families share one oracle:

* ``stub``  — every stage is absent or an injective *recording* stub ``x -> a*x+b`` with
  distinct primes ``a`` (the RGB reduction stub additionally weighs the channels 1,2,4),
  so the order of application is readable from the output and from the call log, and the
  log gives the input of every stage.
* ``real``  — the stages are the anchored DarSIA components (MonochromaticReduction in all
  its colour modes, LinearModel / ScalingModel, TVD with the three skimage back-ends); the
  reference applies the documented formula of each (TVD: the skimage routine the wrapper
  names, with the wrapper's parameters).

The reference model is a plain function composition on float64 copies of the data:
    difference (per option) -> reduction -> cleaning -> balancing -> restoration/model
with   cleaning(s) = clip(s - T, 0, None),  T = max(0, max_k reduction(difference(extra_k)))
(the documented thresholding filter; absent when there are no extra baselines).
Data are dyadic (integers/256), stub coefficients small primes and multiples of 1/256, so
for float images code and reference agree exactly (==); integer images are promoted by
1/255 resp. 1/65535 (documented skimage convention) and compared to 1e-9; the real family
is compared to 1e-12 (float64) resp. 2e-5 (float32 data or the float32 OpenCV gray path).
"""

from __future__ import annotations

import colorsys
import datetime
import itertools

import numpy as np

ID = "C13"
LEVEL = "exploration"
EXHAUSTIVE = True
RULE = (
    "stub family: image kind {scalar, RGB} x image class {ScalarImage/OpticalImage, generic Image} x shapes x dtype {uint8,uint16,float32,float64} "
    "(thorough: x probe dtype {same, other float}) x extra baselines 0..3 x each of reduction/balancing/restoration/model {absent, recording stub} x "
    "order {restoration->model, model->restoration}; real family: kind x shapes x dtypes x MonochromaticReduction mode (8 colour modes + '' + callable + none) x "
    "balancing {none; thorough: + ScalingModel} x TVD {none, chambolle, anisotropic/isotropic bregman} x model {none, LinearModel, ScalingModel, unit ScalingModel} x "
    "order x extras {0,2}, minus the a-priori exclusions listed under bounds. Inside every lattice point: all 4 diff options x probes {baseline object itself, "
    "two mixed-sign patterns, sub-threshold pattern, +-impulse pair; thorough: + all-positive, all-negative and (stub family, special image class, same probe dtype) the complete +-impulse basis}; every "
    "probe on a fresh analysis, then on ONE shared analysis an Eulerian circuit over all ordered pairs (repeats included) of the history probes = all 2-call "
    "histories, followed by every remaining probe. Non-trivial = the reference output of the lattice point is not identically zero over its probes; distinct = "
    "distinct case descriptor."
)
ASSUMPTIONS = [
    "cleaning is the documented thresholding filter clip(s - T, 0), T the element-wise maximum (floored at 0) of the reduced differences of the extra baselines taken with the selected diff option",
    "integer images are promoted with the skimage convention x/255 (uint8), x/65535 (uint16)",
    "TVD reference = the skimage routine the wrapper documents, called with the wrapper's parameters (TVD numerics themselves are not the subject)",
    "hsv reduction is compared on non-negative differences of float images only (its hue/saturation thresholds are discontinuous: a signed input is outside the colour model and the 1/255 promotion is only defined up to the last bit); 'heterogeneous bregman' TVD is left to C16",
    "skimage's bregman routine squeezes unit extents, so bregman TVD is a shape-preserving stage only on shapes without unit extent",
]

DIFFS = ["positive", "negative", "absolute", "plain"]
SHAPES = {"quick": [(1, 1), (3, 4), (5, 2)], "thorough": [(1, 1), (1, 3), (3, 3), (3, 4), (5, 2)]}
DTYPES = ["uint8", "uint16", "float32", "float64"]
REAL_DTYPES = {"quick": ["float64", "uint8"], "thorough": ["float64", "float32", "uint8"]}
REAL_RED = ["none", "", "red", "green", "blue", "red+green", "gray", "negative-key", "hsv", "callable"]
REAL_BAL = {"quick": ["none"], "thorough": ["none", "scaling"]}
REAL_RES = ["none", "chambolle", "anisotropic bregman", "isotropic bregman"]
REAL_MOD = ["none", "linear", "scaling", "unit"]
ORDERS = ["rm", "mr"]  # rm: restoration then model (default), mr: model then restoration
COEF = {"red": (2.0, 3 / 256), "bal": (3.0, 5 / 256), "res": (5.0, 7 / 256), "mod": (7.0, 11 / 256)}
TVD_KW = {"weight": 0.25, "max_num_iter": 4, "eps": 0.0}


def describe(tier):
    return {
        "shapes": SHAPES[tier],
        "dtypes_stub": DTYPES,
        "dtypes_real": REAL_DTYPES[tier],
        "extras_stub": [0, 1, 2, 3],
        "extras_real": [0, 2],
        "diff_options": DIFFS,
        "real_reductions": REAL_RED,
        "real_restorations": REAL_RES,
        "real_balancing": REAL_BAL[tier],
        "probes": ["self", "mixed", "mixed2", "small", "impulses"] + ([] if tier == "quick" else ["pos", "neg", "every +-16 impulse (stub family, image class special, probe dtype same)"]),
        "history": "Eulerian circuit over all ordered pairs of " + ("{self, mixed, mixed2}" if tier == "quick" else "{self, mixed, mixed2, small, impulses}") + ", then every other probe once",
        "excluded_a_priori": ["real: bregman TVD x shapes with a unit extent", "real: hsv x integer dtypes", "real: hsv x diff option plain", "real: colour reductions x scalar images"],
        "real_models": REAL_MOD,
        "probe_dtype": ["same"] if tier == "quick" else ["same", "other-float"],
        "impulse_probes": "one +- pair" if tier == "quick" else "complete +- basis",
    }


def cases(tier):
    out = []
    pdts = ["same"] if tier == "quick" else ["same", "other", "int"]
    for kind, cls, shape, dt, pdt, extras, red, bal, res, mod, order in itertools.product(
        ["scalar", "rgb"], ["special", "generic"], SHAPES[tier], DTYPES, pdts, [0, 1, 2, 3], [0, 1], [0, 1], [0, 1], [0, 1], ORDERS
    ):
        out.append(
            {"fam": "stub", "kind": kind, "cls": cls, "shape": list(shape), "dtype": dt, "pdtype": pdt, "extras": extras,
             "red": red, "bal": bal, "res": res, "mod": mod, "order": order, "tier": tier}
        )
    if tier == "quick":
        # probe stored with another dtype class than the baseline (float baseline with integer probe
        # and vice versa): a slice of what the thorough tier enumerates completely
        for kind, shape, dt, red, mod, pdt_ in itertools.product(["scalar", "rgb"], SHAPES[tier], DTYPES, [0, 1], [0, 1], ["other", "int"]):
            out.append(
                {"fam": "stub", "kind": kind, "cls": "special", "shape": list(shape), "dtype": dt, "pdtype": pdt_, "extras": 0,
                 "red": red, "bal": 0, "res": 0, "mod": mod, "order": ORDERS[0], "tier": tier}
            )
    for kind, shape, dt, extras, red, bal, res, mod, order in itertools.product(
        ["scalar", "rgb"], SHAPES[tier], REAL_DTYPES[tier], [0, 2], REAL_RED, REAL_BAL[tier], REAL_RES, REAL_MOD, ORDERS
    ):
        if kind == "scalar" and red not in ("none", ""):
            continue  # colour reductions are defined on RGB input only
        if "bregman" in res and 1 in shape:
            continue  # skimage's bregman routine squeezes unit extents: not a shape-preserving stage there
        if red == "hsv" and dt.startswith("uint"):
            continue  # hue/saturation thresholds are discontinuous in the last bit of the 1/255 promotion
        out.append(
            {"fam": "real", "kind": kind, "cls": "special", "shape": list(shape), "dtype": dt, "pdtype": "same", "extras": extras,
             "red": red, "bal": bal, "res": res, "mod": mod, "order": order, "tier": tier}
        )

    def nstages(c):
        return sum(1 for k in ("red", "bal", "res", "mod") if c[k] not in (0, "none"))

    out.sort(key=lambda c: (c["fam"] != "stub", nstages(c), c["extras"], int(np.prod(c["shape"])), c["kind"] != "scalar"))
    return out


# --------------------------------------------------------------------------- data
def _ints(shape, rgb, what, k=0):
    """Deterministic integer patterns. base: 64..127, delta: -40..40, noise: -4..4, small: -3..3."""
    s = tuple(shape) + ((3,) if rgb else ())
    out = np.zeros(s, dtype=np.int64)
    for idx in np.ndindex(*s):
        i, j = idx[0], idx[1]
        c = idx[2] if rgb else 0
        if what == "base":
            v = 64 + (7 * i + 13 * j + 29 * c + 5 * i * j + 3 * c * j) % 64
        elif what == "delta":
            v = (11 * i + 17 * j + 23 * c + 3 * i * c + 3 + 31 * k) % 81 - 40
        elif what == "noise":
            v = ((5 * k + 3) * i + (7 * k + 1) * j + 13 * c + k) % 9 - 4
        else:  # small
            v = (i + 2 * j + c) % 7 - 3
        out[idx] = v
    return out


def _to_dtype(ints, dt):
    if dt == "uint8":
        return ints.astype(np.uint8)
    if dt == "uint16":
        return (ints * 64).astype(np.uint16)
    return (ints / 256.0).astype(np.float32 if dt == "float32" else np.float64)


def _promote(arr):
    """Reference promotion to float64 (documented skimage convention for integer images)."""
    if arr.dtype == np.uint8:
        return arr.astype(np.float64) / 255.0
    if arr.dtype == np.uint16:
        return arr.astype(np.float64) / 65535.0
    return arr.astype(np.float64)


def _image(kind, cls, arr, role, stamp=None):
    import darsia

    meta = {"dimensions": [1.5, 2.0], "origin": [3.0, -2.0]}
    if role == "probe" and stamp in ("mixed", "impulses"):
        # a probe of the same pixel shape in another physical frame than the baseline (other extent, other origin)
        meta = {"dimensions": [3.0, 1.0], "origin": [-1.5, 4.25]}
    if role == "probe" and stamp == "mixed2":
        meta.update(time=0.0, name="probe")  # a relative time of exactly zero, no date
    elif role == "probe" and stamp == "small":
        meta.update(time=2.5, name="probe")  # a relative time, no date
    elif role == "probe":
        meta.update(date=datetime.datetime(2020, 1, 1, 12, 0, 0), reference_date=datetime.datetime(2020, 1, 1, 0, 0, 0), name="probe")
    else:
        meta.update(date=datetime.datetime(2020, 1, 1, 0, 0, 0), name=role)
    if kind == "scalar":
        if cls == "special":
            return darsia.ScalarImage(arr, **meta)
        return darsia.Image(arr, scalar=True, **meta)
    if cls == "special":
        return darsia.OpticalImage(arr, color_space="RGB", **meta)
    return darsia.Image(arr, scalar=False, **meta)


def _phys(im):
    cs = im.coordinatesystem
    return {
        "space_dim": int(im.space_dim),
        "indexing": str(im.indexing),
        "dimensions": [float(x) for x in im.dimensions],
        "origin": [float(x) for x in np.asarray(im.origin, dtype=float)],
        "series": bool(im.series),
        "date": repr(im.date),
        "reference_date": repr(im.reference_date),
        "time": None if im.time is None else float(im.time),
        "num_voxels": [int(x) for x in im.num_voxels],
        "voxel_size": [float(x) for x in im.voxel_size],
        "corner": [float(x) for x in np.asarray(cs.coordinate(np.array(im.num_voxels)), dtype=float)],
    }


# --------------------------------------------------------------------------- stages
def _stub_pure(name, x):
    a, b = COEF[name]
    if name == "red" and x.ndim == 3:
        x = x[..., 0] + 2.0 * x[..., 1] + 4.0 * x[..., 2]
    return a * x + b


class _Stub:
    """Recording stage: logs (name, copy of the input), returns the injective affine image."""

    def __init__(self, name, log):
        self.name, self.log = name, log

    def __call__(self, x, *args, **kwargs):
        self.log.append((self.name, np.array(x, copy=True)))
        return _stub_pure(self.name, x)


def _ref_hsv(x):
    out = np.zeros(x.shape[:2])
    for i, j in np.ndindex(*x.shape[:2]):
        h, s, v = colorsys.rgb_to_hsv(float(x[i, j, 0]), float(x[i, j, 1]), float(x[i, j, 2]))
        # documented default bounds: 0 < hue < 360, 0 < saturation < 1
        out[i, j] = v if (0.0 < h < 360.0 and 0.0 < s < 1.0) else 0.0
    return out


def _ref_reduction(mode):
    if mode in ("none", ""):
        return None
    if mode == "red":
        return lambda x: x[..., 0]
    if mode == "green":
        return lambda x: x[..., 1]
    if mode == "blue":
        return lambda x: x[..., 2]
    if mode == "red+green":
        return lambda x: x[..., 0] + x[..., 1]
    if mode == "gray":
        return lambda x: 0.299 * x[..., 0] + 0.587 * x[..., 1] + 0.114 * x[..., 2]
    if mode == "negative-key":
        return lambda x: 1.0 - np.min(1.0 - x, axis=2)
    if mode == "hsv":
        return _ref_hsv
    if mode == "callable":
        return lambda x: _stub_pure("red", x)
    raise AssertionError(mode)


def _ref_restoration(mode):
    if mode == "none":
        return None
    import skimage.restoration as sr

    if mode == "chambolle":
        return lambda x: sr.denoise_tv_chambolle(x, **TVD_KW)
    return lambda x: sr.denoise_tv_bregman(x, isotropic=(mode == "isotropic bregman"), **TVD_KW)


def _ref_model(mode):
    return {"none": None, "linear": lambda x: 2.0 * x + 0.25, "scaling": lambda x: 4.0 * x, "unit": lambda x: x}[mode]


def _build_stages(case, log):
    """-> (real/stub stage objects for the analysis, pure reference functions)."""
    import darsia

    if case["fam"] == "stub":
        objs = {k: (_Stub(k, log) if case[k] else None) for k in ("red", "bal", "res", "mod")}
        refs = {k: ((lambda x, k=k: _stub_pure(k, x)) if case[k] else None) for k in ("red", "bal", "res", "mod")}
        return objs, refs
    red = case["red"]
    objs = {
        "red": None if red == "none" else darsia.MonochromaticReduction(color=(_Stub("red", log) if red == "callable" else red)),
        "bal": None if case["bal"] == "none" else darsia.ScalingModel(scaling=0.5),
        "res": None if case["res"] == "none" else darsia.TVD(method=case["res"], **TVD_KW),
        "mod": {"none": None, "linear": darsia.LinearModel(scaling=2.0, offset=0.25), "scaling": darsia.ScalingModel(scaling=4.0),
                "unit": darsia.ScalingModel(scaling=1.0)}[case["mod"]],
    }
    refs = {
        "red": _ref_reduction(red),
        "bal": None if case["bal"] == "none" else (lambda x: 0.5 * x),
        "res": _ref_restoration(case["res"]),
        "mod": _ref_model(case["mod"]),
    }
    return objs, refs


# --------------------------------------------------------------------------- reference model
def _ref_diff(opt, p, b):
    d = p - b
    if opt == "positive":
        return np.where(d > 0, d, 0.0)
    if opt == "negative":
        return np.where(d < 0, -d, 0.0)
    if opt == "absolute":
        return np.abs(d)
    return d


def _ref_pipeline(refs, order, diff, thr):
    """Plain composition; returns the named intermediates (the inputs of the stages)."""
    ident = lambda x: x  # noqa: E731
    red, bal, res, mod = (refs[k] or ident for k in ("red", "bal", "res", "mod"))
    st = {"diff": diff}
    st["signal"] = red(diff)
    st["clean"] = st["signal"] if thr is None else np.where(st["signal"] - thr > 0, st["signal"] - thr, 0.0)
    st["balanced"] = bal(st["clean"])
    if order == "rm":
        st["restored"] = res(st["balanced"])
        st["out"] = mod(st["restored"])
        st["inputs"] = {"red": st["diff"], "bal": st["clean"], "res": st["balanced"], "mod": st["restored"]}
        st["seq"] = ["red", "bal", "res", "mod"]
    else:
        st["converted"] = mod(st["balanced"])
        st["out"] = res(st["converted"])
        st["inputs"] = {"red": st["diff"], "bal": st["clean"], "mod": st["balanced"], "res": st["converted"]}
        st["seq"] = ["red", "bal", "mod", "res"]
    return st


def _ref_threshold(refs, opt, extras_p, base_p):
    if not extras_p:
        return None
    red = refs["red"] or (lambda x: x)
    thr = None
    for e in extras_p:
        m = red(_ref_diff(opt, e, base_p))
        thr = np.maximum(np.zeros_like(m), m) if thr is None else np.maximum(thr, m)
    return thr


def _same(got, want, tol):
    got = np.asarray(got)
    if got.shape != np.shape(want):
        return False
    if tol == 0:
        return bool(np.array_equal(got.astype(np.float64), want))
    return bool(np.allclose(got.astype(np.float64), want, rtol=0.0, atol=tol, equal_nan=True))


def _euler(n):
    """Eulerian circuit of the complete digraph with loops on n nodes: every ordered pair
    (a, b) occurs exactly once as consecutive entries (n*n + 1 entries)."""
    nxt = {a: list(range(n)) for a in range(n)}
    stack, circuit = [0], []
    while stack:
        v = stack[-1]
        if nxt[v]:
            stack.append(nxt[v].pop())
        else:
            circuit.append(stack.pop())
    return circuit[::-1]


# --------------------------------------------------------------------------- the case
def _res_digest(canon, res, phys):
    return canon.digest([np.asarray(res.img), phys, type(res).__name__, bool(res.scalar)])


def run_case(case, r):
    import darsia

    from mc import canon

    fam, kind, cls = case["fam"], case["kind"], case["cls"]
    shape, dt, extras, order, tier = tuple(case["shape"]), case["dtype"], case["extras"], case["order"], case["tier"]
    rgb = kind == "rgb"
    # "other": another float type; "int": an integer probe (uint8 against float / uint16 baselines, uint16 against uint8)
    pdt = {"same": dt, "other": "float32" if dt == "float64" else "float64", "int": "uint16" if dt == "uint8" else "uint8"}[case["pdtype"]]
    is_int = dt.startswith("uint") or pdt.startswith("uint")
    num, clean = ("int" if is_int else "float"), f"clean={'on' if extras else 'off'}"
    if fam == "stub":
        reduced = rgb and bool(case["red"])
        tol = 1e-9 if is_int else 0.0
    else:
        reduced = rgb and case["red"] not in ("none", "")
        tol = 2e-5 if ("float32" in (dt, pdt) or case["red"] == "gray") else 1e-12
    kr = f"{kind}-{'reduced' if reduced else 'unreduced'}"
    if fam == "real":
        # real family: a lattice point with exactly one anchored component is attributed to
        # that component, every other one to "combined" (so a defect of one component lands
        # in two cells per clause, a pipeline defect in at most 19)
        comps = [f"{k}={(case[k] or 'identity').split()[0]}" for k in ("red", "bal", "res", "mod") if case[k] != "none"]
        real_tag = "none" if not comps else (comps[0] if len(comps) == 1 else "combined")

    def cell(clause, opt=None):
        """A-priori cell: clause x the coordinates that clause depends on."""
        if clause == "no-exception":
            return f"C13/no-exception/{fam}/{kr}/{clean}"
        if fam == "real":
            return f"C13/{clause}/real/{real_tag}"
        d = f"/diff={opt}" if opt else ""
        if clause == "composition":
            return f"C13/composition/stub/{kr}/{num}/{clean}{d}"
        if clause == "baseline-zero":
            return f"C13/baseline-zero/stub/{kr}/{num}/{clean}"
        if clause == "stage-order":
            return f"C13/stage-order/stub/order={order}"
        if clause.startswith("stage-input/"):
            return f"C13/{clause}/stub{d}"
        if clause == "cleaning-filter":
            return f"C13/cleaning-filter/stub/{kr}{d}"
        if clause == "history":
            return f"C13/history/stub/{clean}{d}"
        if clause == "probe-unmodified":
            return f"C13/probe-unmodified/stub/{num}"
        if clause == "scalar-image":
            return f"C13/scalar-image/stub/{kr}/{cls}"
        if clause == "metadata":
            return f"C13/metadata/stub/{kind}/{cls}"
        if clause.startswith("diff-identity/"):
            return f"C13/{clause}/stub/{num}"
        raise AssertionError(clause)

    # ---- data -------------------------------------------------------------------
    B = _ints(shape, rgb, "base")
    D1, D2 = _ints(shape, rgb, "delta", 0), _ints(shape, rgb, "delta", 1)
    S = _ints(shape, rgb, "small")
    imp = np.zeros_like(B)
    imp.flat[0] += 16
    imp.flat[-1] -= 16  # on a single-entry image the pair cancels to the baseline value: still a valid probe
    probe_ints = [("mixed", B + D1), ("mixed2", B - D2), ("small", B + S), ("impulses", B + imp)]
    n_hist = 3  # quick: all ordered pairs of {self, mixed, mixed2}
    if tier == "thorough":
        probe_ints += [("pos", B + np.abs(D1)), ("neg", B - np.abs(D1))]
        n_hist = 5
    base_img = _image(kind, cls, _to_dtype(B, dt), "base")
    extra_imgs = [_image(kind, cls, _to_dtype(B + _ints(shape, rgb, "noise", k), dt), f"extra{k}") for k in range(extras)]
    probes = [("self", base_img)] + [(n, _image(kind, cls, _to_dtype(a, pdt), "probe", stamp=n)) for n, a in probe_ints]
    n_main = len(probes)
    if tier == "thorough" and fam == "stub" and cls == "special" and case["pdtype"] == "same":
        for pos in range(B.size):
            for sgn in (16, -16):
                a = B.copy()
                a.flat[pos] += sgn
                probes.append((f"imp{sgn:+d}@{pos}", _image(kind, cls, _to_dtype(a, pdt), "probe")))
    base_p = _promote(base_img.img)
    extras_p = [_promote(e.img) for e in extra_imgs]
    probes_p = [_promote(p.img) for _, p in probes]
    snaps = [canon.digest(p) for _, p in probes]  # deep snapshot: data bytes, dtype, every attribute
    physs = [_phys(p) for _, p in probes]

    log: list = []
    objs, refs = _build_stages(case, log)

    def make(opt):
        return darsia.ConcentrationAnalysis(
            [base_img] + extra_imgs if extras else base_img,
            objs["red"], objs["bal"], objs["res"], objs["mod"],
            **{"diff option": opt, "restoration -> model": order == "rm"},
        )

    obs_out: dict = {}  # (opt, probe index) -> observed output (float64 copy)
    obs_diff: dict = {}  # (opt, probe index) -> recorded input of the reduction stub
    any_nonzero = False
    digests = []
    for opt in DIFFS:
        if fam == "real" and case["red"] == "hsv" and opt == "plain":
            continue  # hsv of a signed difference is outside the documented colour model
        thr = _ref_threshold(refs, opt, extras_p, base_p)
        fresh_digest = {}
        fresh_out = {}
        for pi, (pname, probe) in enumerate(probes[:n_main]):
            want = _ref_pipeline(refs, order, _ref_diff(opt, probes_p[pi], base_p), thr)
            any_nonzero = any_nonzero or bool(np.any(want["out"] != 0))
            del log[:]
            try:
                an = make(opt)
                ctor_log = list(log)
                del log[:]
                res = an(probe)
            except Exception as e:  # no refusal is legitimate inside the quantifier
                r.fail(cell("no-exception"), "construction and call succeed for every configuration in the quantifier", diff=opt, probe=pname,
                       exception=f"{type(e).__name__}: {e}")
                break
            call_log = list(log)
            # -- the stage order is a public option of the object: an analysis constructed (and used)
            # with the other order and then switched behaves like one constructed with this order
            if pi == 1 and objs["res"] is not None and objs["mod"] is not None:
                try:
                    an2 = darsia.ConcentrationAnalysis(
                        [base_img] + extra_imgs if extras else base_img,
                        objs["red"], objs["bal"], objs["res"], objs["mod"],
                        **{"diff option": opt, "restoration -> model": order != "rm"},
                    )
                    an2(probe)
                    an2.first_restoration_then_model = order == "rm"
                    del log[:]
                    res2 = an2(probe)
                    r.check(_same(np.asarray(res2.img), np.asarray(res.img), 0.0), cell("stage-order"), "switching the order option on a constructed (and used) analysis gives the result of an analysis constructed with that order", diff=opt, order=order, got=np.asarray(res2.img), want=np.asarray(res.img))
                except Exception as e:  # noqa: BLE001
                    r.fail(cell("no-exception"), "construction and call succeed for every configuration in the quantifier", diff=opt, probe=pname, exception=f"{type(e).__name__}: {e}")
                del log[:]
            # -- probe untouched
            r.check(canon.digest(probe) == snaps[pi], cell("probe-unmodified"), "the probe image (data, dtype, metadata) is left unmodified", diff=opt, probe=pname)
            # -- composition
            got = np.asarray(res.img)
            ok = r.check(
                _same(got, want["out"], tol),
                cell("baseline-zero" if pname == "self" else "composition", opt),
                "analysis(baseline) = model(restoration(balancing(cleaning(reduction(0)))))" if pname == "self"
                else "analysis(probe) = model(restoration(balancing(cleaning(reduction(difference))))) (restoration/model swapped when configured)",
                diff=opt, probe=pname, order=order, got=got, want=want["out"],
            )
            if pname == "self" and not any(refs.values()):
                r.check(got.shape == want["out"].shape and not np.any(got != 0), cell("baseline-zero", opt), "without stages the baseline maps to exactly zero signal", got=got)
            if ok:
                obs_out[(opt, pi)] = got.astype(np.float64)
            # -- scalar image iff a channel was reduced; physical metadata of the probe
            was_reduced = got.ndim == np.asarray(probe.img).ndim - 1
            r.check(was_reduced == reduced, cell("scalar-image"), "the signal loses its channel axis exactly when a reduction to one channel is configured", got=list(got.shape))
            if was_reduced:
                r.check(isinstance(res, darsia.ScalarImage) and res.scalar is True, cell("scalar-image"), "a reduced signal is returned as a scalar image",
                        got=type(res).__name__, scalar=res.scalar)
            else:
                r.check(isinstance(res, darsia.Image) and bool(res.scalar) == bool(probe.scalar), cell("scalar-image"),
                        "an unreduced signal keeps the probe's data layout", got=type(res).__name__, scalar=res.scalar)
            rm = _phys(res)
            r.check(physs[pi] == rm, cell("metadata"), "the result carries the probe's physical metadata (extent, origin, time)", probe=physs[pi], result=rm)
            # -- instrumented stages: call order and inputs
            if fam == "stub" or case["red"] == "callable":
                present = [k for k in want["seq"] if (case[k] if fam == "stub" else k == "red")]
                names = [n for n, _ in call_log]
                r.check(names == present, cell("stage-order"), "each configured stage is called exactly once, in the documented order", got=names, want=present, order=order)
                if names == present:
                    for n, x in call_log:
                        r.check(_same(x, want["inputs"][n], tol), cell(f"stage-input/{n}", opt), "each stage receives the output of its predecessor", diff=opt, probe=pname,
                                got=x, want=want["inputs"][n])
                        if n == "red":
                            obs_diff[(opt, pi)] = np.asarray(x, dtype=np.float64)
                exp_ctor = ["red"] * extras if "red" in present else []
                cnames = [n for n, _ in ctor_log]
                if r.check(cnames == exp_ctor, cell("cleaning-filter"), "the cleaning filter reduces every extra baseline once", got=cnames):
                    for (n, x), e in zip(ctor_log, extras_p):
                        r.check(_same(x, _ref_diff(opt, e, base_p), tol), cell("cleaning-filter", opt), "the filter is learnt from the differences of the extra baselines",
                                diff=opt, got=x)
            fresh_digest[pi] = _res_digest(canon, res, rm)
            fresh_out[pi] = np.array(res.img, copy=True)
            digests.append(fresh_digest[pi])
        else:
            # -- 2-call histories on ONE analysis object: an Eulerian circuit over the first n_hist
            # probes (every ordered pair, repeats included), then every other probe once
            try:
                an = make(opt)
                for pi in _euler(min(n_hist, n_main)) + list(range(n_hist, n_main)):
                    res = an(probes[pi][1])
                    r.check(_res_digest(canon, res, _phys(res)) == fresh_digest[pi], cell("history", opt),
                            "analysis(A); analysis(B) returns for B exactly what a fresh analysis returns", diff=opt, probe=probes[pi][0])
                # one probe OBJECT used as a frame buffer: the next frame is loaded into the same Image
                # (written in place, or its array replaced) between calls -- each call analyses the
                # data the object holds NOW
                import copy as _copy

                buf = _copy.deepcopy(probes[1][1])
                for step, pi in enumerate((1, 2, 1, 3, 2)):
                    if pi >= n_main or pi not in fresh_out:
                        continue
                    if step % 2 == 0:
                        buf.img[...] = probes[pi][1].img
                    else:
                        buf.img = np.array(probes[pi][1].img, copy=True)
                    res = an(buf)
                    r.check(_same(np.asarray(res.img), fresh_out[pi], 0.0), cell("history", opt),
                            "a probe object whose data were replaced since the last call is analysed with its current data", diff=opt, frame=probes[pi][0], step=step, how="in place" if step % 2 == 0 else "array replaced", got=np.asarray(res.img), want=fresh_out[pi])
                # complete +-impulse basis (thorough): on the used object, against the reference
                for pi in range(n_main, len(probes)):
                    res = an(probes[pi][1])
                    want = _ref_pipeline(refs, order, _ref_diff(opt, probes_p[pi], base_p), thr)
                    r.check(_same(res.img, want["out"], tol) and _phys(res) == physs[pi], cell("composition", opt),
                            "analysis(baseline +- impulse) = the reference composition, with the probe's metadata", diff=opt, probe=probes[pi][0], got=res.img, want=want["out"])
            except Exception as e:
                r.fail(cell("no-exception"), "repeated calls succeed", diff=opt, exception=f"{type(e).__name__}: {e}")
            for pi in range(len(probes)):
                r.check(canon.digest(probes[pi][1]) == snaps[pi], cell("probe-unmodified"), "the probe image is left unmodified by repeated calls", diff=opt, probe=probes[pi][0])

    # ---- positive + negative = absolute, positive - negative = plain --------------
    id_tol = max(tol, 1e-12) if (is_int or fam == "real") else 0.0
    for src, store in (("output", obs_out), ("reduction-input", obs_diff)):
        if src == "output" and (extras or any(refs.values())):
            continue  # the output is the bare difference only when no stage and no filter is configured
        for pi in range(len(probes)):
            parts = [store.get((o, pi)) for o in DIFFS]
            if any(p is None for p in parts):
                continue
            pos, neg, ab, pl = parts
            r.check(_same(pos + neg, ab, id_tol), cell(f"diff-identity/{src}"), "positive part + negative part = absolute difference", probe=probes[pi][0], pos=pos, neg=neg, absolute=ab)
            r.check(_same(pos - neg, pl, id_tol), cell(f"diff-identity/{src}"), "positive part - negative part = plain difference", probe=probes[pi][0], pos=pos, neg=neg, plain=pl)
            r.check(bool(np.all(pos >= 0) and np.all(neg >= 0) and not np.any((pos > 0) & (neg > 0))), cell(f"diff-identity/{src}"),
                    "positive and negative parts are non-negative with disjoint support", probe=probes[pi][0])
    if any_nonzero:
        r.nontriv({k: v for k, v in case.items() if k != "tier"})
    r.outcome(digests)
