"""C09 — coordinate transformations are invertible and move voxels exactly (E-lattice + E-state).

Part 1 (lattice): ``AffineTransformation`` over the full product of translations, scalings and
rotation angles (2-D one angle, 3-D all angle triples, several non-zero at once), applied to the
origin, the unit vectors and a generic batch, as single points and as batches, plain and typed.

Part 2 (explicit state): ``TransformationCorrection`` / ``CoordinateTransformation`` objects whose
map is the identity, a whole-voxel translation (also larger than the image) or a quarter turn
about the image centre, expressed in physical coordinates, voxels or voxel centres, set directly
or fitted from point pairs.  The live (correction, image A, image B) triple is explored by a BFS
over the calls {A, A overwrite, B, raw array} to a fixpoint (the warp cache and the overwritten
image are the hidden state).  Images carry provenance-coded data (every entry a unique positive
integer), so each output voxel says which input voxel it was taken from.

Reference model: the documented convention "voxel (i,j[,k]) <-> coordinate" (C01/C20) and the
closed form ``x -> t + s R x`` evaluated in exact rational arithmetic (``fractions.Fraction``) at
the centre of every destination voxel; all voxel sizes, origins and translations are dyadic and
the rotation part is an exact signed permutation, so the expected source voxel is exact and the
comparison with the real output is ``==``.  The reference never calls the transformation.

Meaning of the three parametrisations (what the reference assumes, see ASSUMPTIONS):
  coord   x is a Cartesian coordinate; the map is evaluated at voxel-centre coordinates;
  center  x is a continuous voxel position (index + 1/2 = centre);
  voxel   x is a voxel *index* (``AffineCorrection`` itself identifies ``Voxel p`` with the cell
          centred at p + 1/2 when it converts points for an isometry fit), so a whole-voxel map
          takes indices to indices and a quarter turn about the image centre is about (n-1)/2.
"""

from __future__ import annotations

import copy
import itertools
import math
from fractions import Fraction as F

import numpy as np

from mc.canon import digest

ID = "C09"
LEVEL = "model_checking"
EXHAUSTIVE = True
INCLUDE_ROTATION_CORRECTION = True  # rotation.py (an anchor file): quarter turns of RotationCorrection

RULE = (
    "affine lattice: dim {2,3} x scaling {0.1,0.25,0.5,1,2,3,10} x angles (2-D: {0,+-pi/2,pi,pi/6,1}; 3-D: every triple from {0,pi/2,0.3}^3, "
    "thorough {0,pi/2,0.3,-1,pi}^3) x translations {-2..2}^d*{1,0.5} (quick 3-D: {-2,0,1}^3*{1,0.5}) x points {origin, unit vectors, 3 generic; "
    "as batch and as single points} x point type {plain ndarray, Coordinate}; plus voxel / voxel-centre typed integer points under whole-voxel "
    "translations and quarter turns. Corrections: images 2-D {(3,4),(4,4),(1,5)}, 3-D {(2,3,4),(3,3,3)} (thorough: + (5,5), (4,4,4)) x payload {scalar, vector, series} x map "
    "{identity; every whole-voxel translation in [-n-1,n+1] per axis (quick 3-D: {-n-1,-n,-1,0,1,n,n+1} for scalar, {-n-1,-1,0,1,n+1} for vector/series payload, the latter also for (4,4,4)); quarter turns (+-pi/2, pi; in 3-D about each "
    "axis and, for several angles at once, every triple with >= 2 non-zero entries) on square / cubic shapes} x parametrisation {coordinate, voxel, "
    "voxel centre} x build {parameters set directly, fitted from point pairs} x API {TransformationCorrection, CoordinateTransformation} x "
    "destination system {same, larger, smaller, finer, coarser}; per object a BFS over the calls {A, A overwrite, B, array of A} on the live "
    "(correction, A, B) triple to a fixpoint plus all call sequences of length <= 2 without de-duplication. RotationCorrection: quarter turns about "
    "the centre voxel. Non-trivial = a map that moves at least one voxel, or an affine parameter set other than the identity; distinct = distinct "
    "(shape, payload, parametrisation, build, API, system, map) resp. (dim, scaling, angles)."
)
ASSUMPTIONS = [
    "coordinate convention of the reference: 2-D i->-y, j->+x; 3-D i->-z, j->+x, k->-y (checked by C01/C20)",
    "a Voxel-typed map acts on voxel indices (Voxel p = the cell centred at p+1/2, as AffineCorrection's isometry path converts it); a "
    "VoxelCenter-typed map on continuous voxel positions; a Coordinate-typed map on Cartesian coordinates of voxel centres",
    "dyadic voxel sizes / origins / translations: the expected source voxel is computed exactly (Fractions) and compared with ==",
    "the composition order and orientation of the three 3-D angles is not documented: the forward matrix is accepted if it is a product of the "
    "three single-axis rotations (angle sign free) in some order; quarter-turn references are built from that forward matrix",
    "a fitted map is only held to the oracle if the fit landed within 1/4 voxel of the intended map on the whole destination image "
    "(the property is about maps that ARE the identity / translation / quarter turn); misses are counted, not failed",
    "after overwrite=True with different source/destination systems the image no longer belongs to the source system: not explored",
]

PI = math.pi
SCALINGS = [0.1, 0.25, 0.5, 1.0, 2.0, 3.0, 10.0]
ANGLES2 = [0.0, PI / 2, -PI / 2, PI, PI / 6, 1.0]
ANGLES3 = {"quick": [0.0, PI / 2, 0.3], "thorough": [0.0, PI / 2, 0.3, -1.0, PI]}
SHAPES = {2: [(3, 4), (4, 4), (1, 5)], 3: [(2, 3, 4), (3, 3, 3)]}
EXTRA_SHAPES_THOROUGH = {2: [(5, 5)], 3: [(4, 4, 4)]}
PAYLOADS = ["scalar", "vector", "series"]
PARAMS = ["coord", "voxel", "center"]
QUARTER = [PI / 2, -PI / 2, PI]
SYSTEMS_OTHER = ["pad", "crop", "fine", "coarse"]
FIT_OPTIONS = {"tol": 1e-10, "maxiter": 10000}

# matrix axis p -> (Cartesian letter, orientation of one voxel step)
CONV = {2: (("y", -1), ("x", +1)), 3: (("z", -1), ("x", +1), ("y", -1))}
ORIGIN = {2: [3.0, -2.0], 3: [3.0, -2.0, 5.0]}
VS_ANISO = {2: [0.5, 2.0], 3: [0.5, 2.0, 0.25]}
VS_ISO = {2: [0.5, 0.5], 3: [0.5, 0.5, 0.5]}
FIT_POINTS = {2: [(0, 0), (2, 1), (1, 3)], 3: [(0, 0, 0), (2, 1, 0), (1, 3, 1), (0, 1, 2)]}


# =============================================================================== enumeration
def shifts_of(n, tier, dim):
    full = list(range(-n - 1, n + 2))
    if dim == 2 or tier == "thorough":
        return full
    return sorted(set(k for k in (-n - 1, -n, -1, 0, 1, n, n + 1)))


def describe(tier):
    return {
        "scalings": SCALINGS,
        "angles_2d": ANGLES2,
        "angles_3d_per_axis": ANGLES3[tier],
        "image_shapes": {str(k): v + (EXTRA_SHAPES_THOROUGH[k] if tier == "thorough" else []) for k, v in SHAPES.items()},
        "payloads": PAYLOADS,
        "parametrisations": PARAMS,
        "shift_range": "[-n-1, n+1] per axis" + ("" if tier == "thorough" else " (3-D: {-n-1,-n,-1,0,1,n,n+1})"),
        "destination_systems": ["same"] + SYSTEMS_OTHER,
        "search": "fixpoint (no depth bound)",
        "rotation_correction": INCLUDE_ROTATION_CORRECTION,
    }


def cases(tier):
    out = []
    # ---- affine lattice
    for s in SCALINGS:
        for a in ANGLES2:
            out.append({"kind": "affine", "dim": 2, "scaling": s, "angles": [a], "tier": tier})
    for s in SCALINGS:
        for a in itertools.product(ANGLES3[tier], repeat=3):
            out.append({"kind": "affine", "dim": 3, "scaling": s, "angles": list(a), "tier": tier})
    for dim in (2, 3):
        for param in ("voxel", "center"):
            out.append({"kind": "affine-typed", "dim": dim, "param": param})
    # ---- a small destination window far inside a long source (source indices beyond 255 / 65535 while
    # the destination extents stay below): identity map in coordinates
    for nsrc, start, nwin in ((300, 258, 40), (300, 0, 40), (70000, 65540, 8)):
        for param in ("coord", "voxel"):
            out.append({"kind": "window", "nsrc": nsrc, "start": start, "nwin": nwin, "param": param})
    # ---- corrections
    for dim in (2, 3):
        for shape in SHAPES[dim] + (EXTRA_SHAPES_THOROUGH[dim] if tier == "thorough" else []):
            square = len(set(shape)) == 1
            extra = shape in EXTRA_SHAPES_THOROUGH[dim]
            for param in PARAMS:
                for payload in PAYLOADS:
                    # TransformationCorrection, parameters set directly, same systems: the full map space
                    if dim == 2 or payload == "scalar" or (tier == "thorough" and not extra):
                        for k0 in shifts_of(shape[0], tier, dim):
                            out.append(_cc("TC", "set", "same", shape, payload, param, {"type": "shift", "k0": k0, "range": "full"}, tier))
                    else:  # quick, 3-D, vector / series payload: the edge set {-n-1,-1,0,1,n+1} per axis
                        for k0 in sorted(set([-shape[0] - 1, -1, 0, 1, shape[0] + 1])):
                            out.append(_cc("TC", "set", "same", shape, payload, param, {"type": "shift", "k0": k0, "range": "edge"}, tier))
                    if square:
                        out.append(_cc("TC", "set", "same", shape, payload, param, {"type": "turn"}, tier))
                    # CoordinateTransformation (payload matters for the metadata), reduced shift set
                    out.append(_cc("CT", "set", "same", shape, payload, param, {"type": "shift", "k0": None, "range": "edge"}, tier))
                    if square:
                        out.append(_cc("CT", "set", "same", shape, payload, param, {"type": "turn"}, tier))
                    # different destination systems
                    for sysv in SYSTEMS_OTHER:
                        out.append(_cc("TC", "set", sysv, shape, payload, param, {"type": "shift", "k0": None, "range": "unit"}, tier))
                        if payload == "scalar" or tier == "thorough":
                            out.append(_cc("CT", "set", sysv, shape, payload, param, {"type": "shift", "k0": None, "range": "unit"}, tier))
                # scalar data whose border voxels are +inf / -inf (no-data markers): vacated regions are
                # still filled with zeros, moved voxels keep their (infinite) values
                for k0 in sorted(set([-shape[0] - 1, -1, 0, 1, shape[0] + 1])):
                    out.append(_cc("TC", "set", "same", shape, "inf-border", param, {"type": "shift", "k0": k0, "range": "edge"}, tier))
                for sysv in SYSTEMS_OTHER:
                    out.append(_cc("TC", "set", sysv, shape, "inf-border", param, {"type": "shift", "k0": None, "range": "unit"}, tier))
                # fitted maps: the warp does not depend on the payload any more
                for api in ("TC", "CT"):
                    for k0 in shifts_of(shape[0], tier, dim):
                        out.append(_cc(api, "fit", "same", shape, "scalar", param, {"type": "shift", "k0": k0, "range": "full" if dim == 2 or tier == "thorough" else "edge"}, tier))
                    if square and (dim == 2 or tier == "thorough"):
                        out.append(_cc(api, "fit", "same", shape, "scalar", param, {"type": "turn"}, tier))
                out.append(_cc("CT", "fit", "fine", shape, "scalar", param, {"type": "shift", "k0": None, "range": "unit"}, tier))
                if param != "coord":  # isometry fit: voxel-type points are converted to centre coordinates
                    if tier == "thorough":
                        out.append(_cc("CT", "fit-isometry", "same", shape, "scalar", param, {"type": "shift", "k0": None, "range": "edge"}, tier))
                    # ... of the source system for the source points and of the DESTINATION system for the
                    # destination points: destination systems with another origin / shape / voxel size
                    # (same voxel size: pad / crop - with another voxel size the pairs are not related by an isometry)
                    for sysv in ("pad", "crop"):
                        out.append(_cc("CT", "fit-isometry", sysv, shape, "scalar", param, {"type": "shift", "k0": None, "range": "unit"}, tier))
    # ---- RotationCorrection
    if INCLUDE_ROTATION_CORRECTION:
        for shape in [(3, 3), (4, 4), (5, 5), (3, 3, 3)] + ([(4, 4, 4)] if tier == "thorough" else []):
            for payload in PAYLOADS:
                out.append({"kind": "rotcorr", "shape": list(shape), "payload": payload, "tier": tier})
    order = {"window": 0, "affine": 0, "affine-typed": 1, "rotcorr": 2, "corr": 3}
    out.sort(key=lambda c: (order[c["kind"]], c.get("dim", len(c.get("shape", []))), int(np.prod(c.get("shape", [1])))))
    return out


def _cc(api, build, sysv, shape, payload, param, maps, tier):
    return {"kind": "corr", "api": api, "build": build, "sys": sysv, "shape": list(shape), "payload": payload, "param": param, "maps": maps, "tier": tier}


def crash_cell(case, exc, where):
    if case["kind"] == "corr":
        return f"C09/correct/param={case['param']}/crash/{case['api']}/{case['build']}/{'same' if case['sys'] == 'same' else 'other'}/{type(exc).__name__}"
    if case["kind"] == "rotcorr":
        return f"C09/RotationCorrection/crash/payload={case['payload']}/{type(exc).__name__}@{where}"
    return f"C09/{case['kind']}/crash/{type(exc).__name__}@{where}"


# =========================================================================== exact reference
def rot_closed(dim, axis, theta):
    """Closed-form rotation by theta: 2-D in the plane, 3-D about ``axis`` (right-handed)."""
    c, s = math.cos(theta), math.sin(theta)
    if dim == 2:
        return np.array([[c, -s], [s, c]])
    if axis == 0:
        return np.array([[1, 0, 0], [0, c, -s], [0, s, c]])
    if axis == 1:
        return np.array([[c, 0, s], [0, 1, 0], [-s, 0, c]])
    return np.array([[c, -s, 0], [s, c, 0], [0, 0, 1]])


def quarter_int(dim, axis, theta):
    """The same for multiples of pi/2, as an exact integer matrix."""
    q = int(round(theta / (PI / 2))) % 4
    c, s = [(1, 0), (0, 1), (-1, 0), (0, -1)][q]
    if dim == 2:
        return [[c, -s], [s, c]]
    if axis == 0:
        return [[1, 0, 0], [0, c, -s], [0, s, c]]
    if axis == 1:
        return [[c, 0, s], [0, 1, 0], [-s, 0, c]]
    return [[c, -s, 0], [s, c, 0], [0, 0, 1]]


def is_product_of_single_rotations(R, angles, tol=1e-12):
    """R equals a product of the three single-axis rotations in some order, angle signs free."""
    for perm in itertools.permutations(range(3)):
        for sg in itertools.product((1, -1), repeat=3):
            P = np.eye(3)
            for ax in perm:
                P = P @ rot_closed(3, ax, sg[ax] * angles[ax])
            if np.max(np.abs(P - R)) < tol:
                return True
    return False


def eye_int(dim):
    return [[1 if i == j else 0 for j in range(dim)] for i in range(dim)]


def matvec(M, x):
    return [sum(M[i][j] * x[j] for j in range(len(x))) for i in range(len(M))]


def transpose(M):
    return [list(r) for r in zip(*M)]


def a_matrix(dim, vs):
    """X = origin + A u  for a continuous voxel position u (documented convention)."""
    car = "xyz"[:dim]
    A = [[F(0)] * dim for _ in range(dim)]
    for p, (c, sgn) in enumerate(CONV[dim]):
        A[car.index(c)][p] = F(sgn) * F(vs[p])
    return A


def a_inverse(A):
    dim = len(A)
    B = [[F(0)] * dim for _ in range(dim)]
    for c in range(dim):
        for p in range(dim):
            if A[c][p] != 0:
                B[p][c] = 1 / A[c][p]
    return B


class Sys:
    def __init__(self, shape, origin, vs):
        self.shape, self.origin, self.vs = tuple(shape), [float(x) for x in origin], [float(x) for x in vs]
        self.dim = len(shape)

    def dims(self):
        return [self.vs[a] * self.shape[a] for a in range(self.dim)]


def index_map(src: Sys, dst: Sys, param: str, t, M):
    """For every destination voxel the source voxel named by the map (exact arithmetic).

    Returns (list of destination index tuples, list of source index tuples or None)."""
    dim = src.dim
    Minv = transpose(M)
    half = F(1, 2)
    t = [F(x) for x in t]
    if param == "coord":
        As, Ad = a_matrix(dim, src.vs), a_matrix(dim, dst.vs)
        Asi = a_inverse(As)
        os_, od = [F(x) for x in src.origin], [F(x) for x in dst.origin]
    dsts, srcs = [], []
    for vp in np.ndindex(*dst.shape):
        if param == "coord":
            Xp = [od[c] + sum(Ad[c][p] * (F(vp[p]) + half) for p in range(dim)) for c in range(dim)]
            X = matvec(Minv, [Xp[c] - t[c] for c in range(dim)])
            u = matvec(Asi, [X[c] - os_[c] for c in range(dim)])
            assert all(x.denominator != 1 for x in u), "reference: a destination centre lies on a source voxel boundary"
            v = tuple(math.floor(x) for x in u)
        elif param == "center":
            u = matvec(Minv, [F(vp[p]) + half - t[p] for p in range(dim)])
            assert all(x.denominator != 1 for x in u), "reference: a destination centre lies on a source voxel boundary"
            v = tuple(math.floor(x) for x in u)
        else:
            w = matvec(Minv, [F(vp[p]) - t[p] for p in range(dim)])
            assert all(x.denominator == 1 for x in w), "reference: index map must be integral"
            v = tuple(int(x) for x in w)
        dsts.append(tuple(int(x) for x in vp))
        srcs.append(v if all(0 <= v[a] < src.shape[a] for a in range(dim)) else None)
    return dsts, srcs


def apply_map(arr, dst_shape, dsts, srcs):
    dim = len(dst_shape)
    out = np.zeros(tuple(dst_shape) + arr.shape[dim:], dtype=arr.dtype)
    for vp, v in zip(dsts, srcs):
        if v is not None:
            out[vp] = arr[v]
    return out


def shifted(arr, k):
    """Zero-filled shift by k voxels per axis (explicit slicing, no roll)."""
    out = np.zeros_like(arr)
    sd, ss = [], []
    for a, ka in enumerate(k):
        n = arr.shape[a]
        if abs(ka) >= n:
            return out
        sd.append(slice(max(ka, 0), n + min(ka, 0)))
        ss.append(slice(max(-ka, 0), n + min(-ka, 0)))
    out[tuple(sd)] = arr[tuple(ss)]
    return out


def is_some_rot90(out, arr, dim):
    planes = list(itertools.combinations(range(dim), 2))
    return any(np.array_equal(out, np.rot90(arr, k, axes=pl)) for pl in planes for k in (1, 2, 3))


# ================================================================================ builders
def make_image(spec: Sys, payload, base, name):
    import darsia

    full = spec.shape
    kw = {"space_dim": spec.dim, "scalar": payload in ("scalar", "series", "inf-border"), "dimensions": spec.dims(), "origin": list(spec.origin), "name": name}
    if payload == "series":
        full = full + (2,)
        kw["series"] = True
        kw["time"] = [0.0, 2.5]
    if payload == "vector":
        full = full + (2,)
    data = (base + 1 + np.arange(int(np.prod(full)), dtype=float)).reshape(full)
    if payload == "inf-border":
        for k_, idx in enumerate(np.ndindex(*full)):
            if any(i == 0 or i == n_ - 1 for i, n_ in zip(idx, full)):
                data[idx] = np.inf if k_ % 2 == 0 else -np.inf
    return darsia.Image(data, **kw)


def typed(param, pts):
    import darsia

    pts = np.asarray(pts)
    if param == "coord":
        return darsia.make_coordinate(pts.astype(float))
    if param == "voxel":
        return darsia.make_voxel(pts)
    return darsia.make_voxel_center(pts)


def systems(shape, sysv, iso):
    dim = len(shape)
    vs = (VS_ISO if iso else VS_ANISO)[dim]
    src = Sys(shape, ORIGIN[dim], vs)
    if sysv == "same":
        return src, Sys(shape, ORIGIN[dim], vs)
    A = a_matrix(dim, vs)
    k0 = [-1, 1, 0][:dim]
    off = [float(x) for x in matvec(A, [F(k) for k in k0])]
    o_shift = [ORIGIN[dim][c] + off[c] for c in range(dim)]
    if sysv == "pad":  # larger canvas, same voxel size, origin one voxel up/left of the source
        return src, Sys([n + 2 for n in shape], o_shift, vs)
    if sysv == "crop":
        k1 = [0, 1, 0][:dim]
        off1 = [float(x) for x in matvec(A, [F(k) for k in k1])]
        return src, Sys([max(1, n - 1) for n in shape], [ORIGIN[dim][c] + off1[c] for c in range(dim)], vs)
    if sysv == "fine":  # half the voxel size, different shape
        return src, Sys([2 * n + 1 for n in shape], o_shift, [v / 2 for v in vs])
    if sysv == "coarse":  # three times the voxel size
        return src, Sys([(n + 2) // 3 + 1 for n in shape], ORIGIN[dim], [3 * v for v in vs])
    raise AssertionError(sysv)


def enumerate_maps(case):
    """Descriptors of the maps of one case: ("shift", k) or ("turn", angles)."""
    shape, tier = tuple(case["shape"]), case["tier"]
    dim = len(shape)
    m = case["maps"]
    if m["type"] == "shift":
        if m["range"] == "full":
            axes = [shifts_of(n, tier, dim) for n in shape]
        elif m["range"] == "edge":
            axes = [sorted(set([-n - 1, -1, 0, 1, n + 1])) for n in shape]
        else:
            axes = [[-1, 0, 1] if tier == "quick" else [-2, -1, 0, 1, 2] for n in shape]
        if m["k0"] is not None:
            axes[0] = [m["k0"]]
        return [("shift", list(k)) for k in itertools.product(*axes)]
    if dim == 2:
        return [("turn", [a]) for a in QUARTER]
    outm = []
    for ax in range(3):
        for a in QUARTER:
            ang = [0.0, 0.0, 0.0]
            ang[ax] = a
            outm.append(("turn", ang))
    alpha = [0.0, PI / 2] if tier == "quick" else [0.0, PI / 2, -PI / 2, PI]
    for ang in itertools.product(alpha, repeat=3):
        if sum(1 for a in ang if a != 0.0) >= 2:
            outm.append(("turn", list(ang)))
    return outm


def map_class(mp, shape):
    dim = len(shape)
    if mp[0] == "shift":
        if all(k == 0 for k in mp[1]):
            return "identity"
        if any(abs(k) >= n for k, n in zip(mp[1], shape)):
            return f"translation-beyond-image/dim={dim}"
        return f"translation/dim={dim}"
    nz = sum(1 for a in mp[1] if a != 0.0)
    if dim == 2:
        return "quarter-turn/dim=2"
    return "quarter-turn/dim=3/" + ("single-angle" if nz == 1 else "multi-angle")


# ============================================================================== affine lattice
def run_affine(case, r):
    import darsia

    dim, s, angles, tier = case["dim"], case["scaling"], case["angles"], case["tier"]
    nz = [a for a in range(len(angles)) if angles[a] != 0.0]
    cls = "dim=2" if dim == 2 else "dim=3/" + ("no-angle" if not nz else "single-angle" if len(nz) == 1 else "multi-angle")

    def cell(clause):
        return f"C09/affine/{clause}/{cls}"

    if s != 1.0 or nz:
        r.nontriv((dim, s, angles))
    base = [-2, -1, 0, 1, 2] if (dim == 2 or tier == "thorough") else [-2, 0, 1]
    translations = [np.array(k, dtype=float) * f for f in (1.0, 0.5) for k in itertools.product(base, repeat=dim)]
    generic = np.array([[0.3, -1.7, 2.2], [5.0, 0.25, -3.5], [-0.1, 4.0, 1e-3]])[:, :dim]
    batch = np.vstack([np.zeros((1, dim)), np.eye(dim), generic])
    singles = [np.zeros(dim), np.eye(dim)[dim - 1].copy(), generic[0].copy()]

    # ---- the rotation part (once per case)
    T = darsia.AffineTransformation(dim)
    T.set_parameters(translation=np.zeros(dim), scaling=s, rotation=list(angles))
    R, Ri = np.array(T.rotation, dtype=float), np.array(T.rotation_inv, dtype=float)
    I = np.eye(dim)
    r.check(R.shape == (dim, dim) and np.max(np.abs(R.T @ R - I)) < 1e-13, cell("rotation-matrix"), "R^T R = I", R=R)
    r.check(abs(np.linalg.det(R) - 1.0) < 1e-13, cell("rotation-matrix"), "det R = 1", det=float(np.linalg.det(R)))
    r.check(np.max(np.abs(R @ Ri - I)) < 1e-13, cell("rotation-inverse"), "rotation_inv is the inverse of rotation", R=R, R_inv=Ri, err=float(np.max(np.abs(R @ Ri - I))))
    if dim == 2:
        ok = min(np.max(np.abs(R - rot_closed(2, 0, angles[0]))), np.max(np.abs(R - rot_closed(2, 0, -angles[0])))) < 1e-13
        r.check(ok, cell("rotation-matrix"), "2-D rotation part is the plane rotation by the given angle", R=R, angle=angles[0])
    else:
        r.check(is_product_of_single_rotations(R, angles), cell("rotation-matrix"), "3-D rotation part is a product of the single-axis rotations by the given angles", R=R, angles=angles)
        if len(nz) == 1:
            e = I[nz[0]]
            r.check(np.max(np.abs(R @ e - e)) < 1e-15, cell("rotation-matrix"), "a single angle about axis a leaves e_a fixed", axis=nz[0], Re=R @ e)
            r.check(abs(np.trace(R) - (1 + 2 * math.cos(angles[nz[0]]))) < 1e-13, cell("rotation-matrix"), "trace R = 1 + 2 cos(angle)")
    r.outcome(("R", dim, s, angles, np.round(R, 12).tolist()))

    # ---- set_parameters: partial updates and the vector form describe the same map
    t0 = translations[len(translations) // 3]
    full = darsia.AffineTransformation(dim)
    full.set_parameters(translation=t0.copy(), scaling=s, rotation=list(angles))
    want = full.call_array(batch)
    part = darsia.AffineTransformation(dim)
    part.set_parameters(rotation=list(angles))
    part.set_parameters(translation=t0.copy())
    part.set_parameters(scaling=s)
    r.check(np.array_equal(part.call_array(batch), want) and np.array_equal(part.inverse_array(batch), full.inverse_array(batch)), cell("set_parameters"), "setting rotation, translation, scaling one at a time gives the same map as setting them together")
    vec = darsia.AffineTransformation(dim)
    vec.set_parameters_as_vector(np.array(list(t0) + [s] + list(angles)))
    r.check(np.array_equal(vec.call_array(batch), want), cell("set_parameters"), "vector form [translation, scaling, angles] gives the same map")
    if s == 1.0:
        iso = darsia.AffineTransformation(dim)
        iso.isometry = True
        iso.set_parameters_as_vector(np.array(list(t0) + list(angles)))
        r.check(np.array_equal(iso.call_array(batch), want), cell("set_parameters"), "isometry vector form [translation, angles] gives the same map with scaling 1")
    # partial updates AFTER the map and its inverse were used: every single-parameter update on a
    # used object gives the map (and inverse) of a fresh object with the resulting parameters
    used = darsia.AffineTransformation(dim)
    used.set_parameters(translation=np.full(dim, 7.0), scaling=4.0, rotation=[0.7] * len(angles))
    cur = {"translation": np.full(dim, 7.0), "scaling": 4.0, "rotation": [0.7] * len(angles)}
    for upd in ({"scaling": s}, {"translation": t0.copy()}, {"rotation": list(angles)}, {"scaling": 2.0 * s}, {"translation": -t0}, {"scaling": s, "translation": t0.copy()}):
        used.call_array(batch), used.inverse_array(batch)
        used.set_parameters(**{k: (v.copy() if isinstance(v, np.ndarray) else v) for k, v in upd.items()})
        cur.update(upd)
        fresh_t = darsia.AffineTransformation(dim)
        fresh_t.set_parameters(translation=np.asarray(cur["translation"], dtype=float).copy(), scaling=cur["scaling"], rotation=list(cur["rotation"]))
        r.check(np.array_equal(used.call_array(batch), fresh_t.call_array(batch)) and np.array_equal(used.inverse_array(batch), fresh_t.inverse_array(batch)), cell("set_parameters"), "a single-parameter update on an object whose map and inverse were already evaluated gives the map and inverse of a fresh object with those parameters", updated=sorted(upd))
    # other spellings of the same parameter values (Python / NumPy integers, float32, tuples,
    # integer arrays) describe the same map and the same inverse
    if float(s).is_integer():
        t_int = np.round(t0).astype(int)
        ref_int = darsia.AffineTransformation(dim)
        ref_int.set_parameters(translation=t_int.astype(float), scaling=float(s), rotation=list(angles))
        w_f, w_i = ref_int.call_array(batch), ref_int.inverse_array(batch)
        for name, sv, tv in (
            ("python-int", int(s), [int(v) for v in t_int]),
            ("numpy-int64", np.int64(s), t_int.astype(np.int64)),
            ("numpy-int32", np.int32(s), tuple(int(v) for v in t_int)),
            ("float32", np.float32(s), t_int.astype(np.float32)),
        ):
            sp = darsia.AffineTransformation(dim)
            try:
                sp.set_parameters(translation=tv, scaling=sv, rotation=list(angles))
                g_f, g_i = sp.call_array(batch), sp.inverse_array(batch)
                okp = np.allclose(g_f, w_f, rtol=1e-6 if name == "float32" else 1e-15, atol=1e-6 if name == "float32" else 1e-15) and np.allclose(g_i, w_i, rtol=1e-6 if name == "float32" else 1e-15, atol=1e-6 if name == "float32" else 1e-15)
                r.check(okp, cell("parameter-spelling"), "integer-valued parameters given as Python / NumPy integers or float32 describe the same map and inverse as the float spelling", spelling=name, scaling=s, forward=g_f, want_forward=w_f, inverse=g_i, want_inverse=w_i)
            except Exception as e:  # noqa: BLE001
                r.fail(cell("parameter-spelling"), "integer-valued parameters given as Python / NumPy integers or float32 are accepted", spelling=name, scaling=s, exception=f"{type(e).__name__}: {e}"[:300])
    # re-setting parameters on a used object leaves no trace of the old ones
    reuse = darsia.AffineTransformation(dim)
    reuse.set_parameters(translation=np.full(dim, 7.0), scaling=4.0, rotation=[0.7] * len(angles))
    reuse.call_array(batch)
    reuse.set_parameters(translation=t0.copy(), scaling=s, rotation=list(angles))
    r.check(np.array_equal(reuse.call_array(batch), want) and np.array_equal(reuse.inverse_array(batch), full.inverse_array(batch)), cell("set_parameters"), "parameters set on a previously used object describe the same map as on a fresh one")

    # ---- the map itself
    for kind in ("plain", "coordinate"):
        ccall = f"C09/affine/call/{kind}"
        T = darsia.AffineTransformation(dim)
        if kind == "coordinate":
            p = darsia.make_coordinate(np.zeros((2, dim)))
            T.set_dtype(p, p)
        T.set_parameters(scaling=s, rotation=list(angles))
        for it, t in enumerate(translations):
            T.set_parameters(translation=t.copy())
            # single points with every 7th translation (the single/batch distinction does not involve t)
            for x in [batch] + (singles if it % 7 == 0 else []):
                single = x.ndim == 1
                xin = x.copy() if kind == "plain" else darsia.make_coordinate(x.copy())
                try:
                    y = T(xin)
                    xb = T.inverse(y)
                    z = T(T.inverse(xin))
                except TypeError as e:
                    # not a refusal: plain arrays are the default input/output type of the class
                    r.fail(ccall + ("/single" if single else "/batch"), "the transformation can be applied to points of its configured type", exception=repr(e), dim=dim)
                    continue
                if kind == "coordinate":
                    wt = darsia.Coordinate if single else darsia.CoordinateArray
                    r.check(type(y) is wt and type(xb) is wt, ccall + ("/single" if single else "/batch"), "result carries the configured point type (single point -> point, batch -> array)", got=[type(y).__name__, type(xb).__name__])
                ya, xa, za = np.asarray(y, dtype=float), np.asarray(xb, dtype=float), np.asarray(z, dtype=float)
                if not r.check(ya.shape == x.shape and xa.shape == x.shape and za.shape == x.shape, ccall + ("/single" if single else "/batch"), "result has the shape of the input", got=[list(ya.shape), list(xa.shape)]):
                    continue
                x2 = np.atleast_2d(x)
                mag = float(np.max(np.abs(x2))) if x2.size else 0.0
                tm = float(np.max(np.abs(t)))
                tol = 1e-12 * (1.0 + mag + tm + tm / s + s * mag)
                wantf = t[None, :] + s * (x2 @ R.T)
                r.check(np.max(np.abs(np.atleast_2d(ya) - wantf)) <= tol, cell("formula"), "f(x) = t + s R x", t=t, s=s, x=x, got=ya, want=wantf)
                # translation and scaling without reference to R: f(0)=t is in the batch; |f(x)-t| = s|x|
                nr = np.linalg.norm(np.atleast_2d(ya) - t[None, :], axis=1)
                r.check(np.max(np.abs(nr - s * np.linalg.norm(x2, axis=1))) <= tol, cell("formula"), "|f(x) - t| = s |x| (translation and scaling act as documented)", t=t, s=s)
                r.check(np.max(np.abs(xa - x)) <= tol, cell("roundtrip"), "inverse(f(x)) = x", t=t, s=s, angles=angles, x=x, got=xa, err=float(np.max(np.abs(xa - x))))
                r.check(np.max(np.abs(za - x)) <= tol, cell("roundtrip"), "f(inverse(x)) = x", t=t, s=s, angles=angles, x=x, got=za, err=float(np.max(np.abs(za - x))))


def run_affine_typed(case, r):
    """Voxel / voxel-centre typed integer points under whole-voxel maps: exact images, exact round trip."""
    import darsia

    dim, param = case["dim"], case["param"]
    n = 4
    half = F(1, 2)
    V = np.array(list(itertools.product(range(-1, n + 1), repeat=dim)), dtype=int)
    pts = typed(param, V)
    maps = [("shift", list(k)) for k in itertools.product([-3, -1, 0, 2], repeat=dim)]
    turns = [("turn", [a]) for a in QUARTER] if dim == 2 else [("turn", [a if ax == b else 0.0 for b in range(3)]) for ax in range(3) for a in QUARTER]
    for mp in maps + turns:
        cls = map_class(mp, (n,) * dim)
        cell = f"C09/affine-typed/param={param}/{cls}"
        T = darsia.AffineTransformation(dim)
        T.set_dtype(pts, pts)
        if mp[0] == "shift":
            M, t = eye_int(dim), [F(k) for k in mp[1]]
            T.set_parameters(translation=np.array(mp[1], dtype=float))
        else:
            ax = 0 if dim == 2 else [a != 0.0 for a in mp[1]].index(True)
            M = quarter_int(dim, ax, mp[1][0] if dim == 2 else mp[1][ax])
            c = [F(n - 1, 2) if param == "voxel" else F(n, 2)] * dim
            Mc = matvec(M, c)
            t = [c[a] - Mc[a] for a in range(dim)]
            T.set_parameters(translation=np.array([float(x) for x in t]), rotation=list(mp[1]))
            Rr = np.rint(T.rotation).astype(int)
            if np.max(np.abs(T.rotation - Rr)) > 1e-12 or not (np.array_equal(Rr, np.array(M)) or np.array_equal(Rr, np.array(M).T)):
                r.fail(f"C09/affine/rotation-matrix/dim={dim}" + ("" if dim == 2 else "/single-angle"), "a quarter-turn angle gives the quarter-turn matrix", R=T.rotation)
                continue
            M = Rr.tolist()
            Mc = matvec(M, c)
            t = [c[a] - Mc[a] for a in range(dim)]
            T.set_parameters(translation=np.array([float(x) for x in t]))
        off = half if param == "center" else F(0)
        want = np.array([[float(t[a] + sum(M[a][b] * (F(int(v[b])) + off) for b in range(dim))) for a in range(dim)] for v in V])
        r.nontriv(("typed", dim, param, mp))
        Y = T(pts)
        r.check(type(Y) is type(pts) and np.array_equal(np.asarray(Y, dtype=float), want), cell, "a whole-voxel map takes typed voxel points exactly to their image voxels", map=mp, got=np.asarray(Y)[:6], want=want[:6])
        back = T.inverse(T(pts))
        r.check(type(back) is type(pts) and np.array_equal(np.asarray(back, dtype=float), np.asarray(pts, dtype=float)), cell, "inverse(f(p)) = p for typed voxel points", map=mp, got=np.asarray(back)[:6])
        fwd = T(T.inverse(pts))
        r.check(np.array_equal(np.asarray(fwd, dtype=float), np.asarray(pts, dtype=float)), cell, "f(inverse(p)) = p for typed voxel points", map=mp, got=np.asarray(fwd)[:6])
        y1 = T(pts[0])
        r.check(type(y1) is type(pts[0]) and np.array_equal(np.asarray(y1, dtype=float), want[0]), cell, "single typed point: same image, point type", map=mp, got=np.asarray(y1))
        r.outcome(("typed", dim, param, mp, np.asarray(Y).tolist()))


# ================================================================================ corrections
def intended(case, mp, src: Sys, dst: Sys):
    """Exact description (t as Fractions, M integer) of the intended map in its own parametrisation;
    also the angle list to hand to set_parameters (None = leave the rotation alone)."""
    dim, param = src.dim, case["param"]
    if mp[0] == "shift":
        k = [F(x) for x in mp[1]]
        t = matvec(a_matrix(dim, src.vs), k) if param == "coord" else k
        return t, eye_int(dim), None
    angles = mp[1]
    if dim == 2:
        M = quarter_int(2, 0, angles[0])
    else:
        M = None  # from the forward matrix of the object (composition order undocumented)
    if param == "coord":
        A = a_matrix(dim, src.vs)
        mid = matvec(A, [F(n, 2) for n in src.shape])
        c = [F(src.origin[a]) + mid[a] for a in range(dim)]
    elif param == "center":
        c = [F(n, 2) for n in src.shape]
    else:
        c = [F(n - 1, 2) for n in src.shape]
    return c, M, angles  # for turns the first entry is the centre; t = c - M c once M is known


def run_corr(case, r):
    import darsia

    shape, payload, param, api, build, sysv, tier = tuple(case["shape"]), case["payload"], case["param"], case["api"], case["build"], case["sys"], case["tier"]
    dim = len(shape)
    sysc = "same" if sysv == "same" else "other"
    apin = {"TC": "TransformationCorrection", "CT": "CoordinateTransformation"}[api]
    buildc = "fit" if build.startswith("fit") else "set"
    maps = enumerate_maps(case)
    undedup_done = False
    for mp in maps:
        cls = map_class(mp, shape)
        cell = f"C09/correct/param={param}/{cls}/{apin}/{buildc}/{sysc}"
        src, dst = systems(shape, sysv, iso=(mp[0] == "turn"))
        A = make_image(src, payload, 0, "A")
        B = make_image(src, payload, 1000, "B")
        canvas = darsia.Image(np.zeros(dst.shape), dimensions=dst.dims(), origin=list(dst.origin), space_dim=dim)
        cs_src, cs_dst = A.coordinatesystem, canvas.coordinatesystem
        two = typed(param, np.array([[0] * dim, [1] * dim]))

        # ---- the intended map, exactly
        first, M, angles = intended(case, mp, src, dst)
        if mp[0] == "shift":
            t = first
        else:
            if M is None:
                probe = darsia.AffineTransformation(dim)
                probe.set_parameters(rotation=list(angles))
                Rf = np.array(probe.rotation, dtype=float)
                Mi = np.rint(Rf).astype(int)
                okR = np.max(np.abs(Rf - Mi)) < 1e-12 and abs(np.linalg.det(Mi) - 1) < 1e-12 and np.array_equal(Mi.T @ Mi, np.eye(3, dtype=int)) and is_product_of_single_rotations(Rf, angles)
                if not r.check(okR, "C09/affine/rotation-matrix/dim=3/" + ("single-angle" if cls.endswith("single-angle") else "multi-angle"), "quarter-turn angles give a signed permutation matrix with det 1 composed of the single-axis turns", R=Rf, angles=angles):
                    continue
                M = Mi.tolist()
            Mc = matvec(M, first)
            t = [first[a] - Mc[a] for a in range(dim)]
        tf = np.array([float(x) for x in t])
        assert all(F(float(x)) == x for x in t)

        # ---- build the object under test
        def fit_points(t_, M_):
            V = np.array(FIT_POINTS[dim], dtype=int)
            if param == "voxel":
                P = [[F(int(x)) for x in v] for v in V]
            elif param == "center":
                P = [[F(int(x)) + F(1, 2) for x in v] for v in V]
            else:
                As = a_matrix(dim, src.vs)
                P = [[F(src.origin[c]) + sum(As[c][p] * (F(int(v[p])) + F(1, 2)) for p in range(dim)) for c in range(dim)] for v in V]
            Q = [[t_[a] + sum(M_[a][b] * p[b] for b in range(dim)) for a in range(dim)] for p in P]
            if param == "coord":
                return darsia.make_coordinate(np.array([[float(x) for x in p] for p in P])), darsia.make_coordinate(np.array([[float(x) for x in q] for q in Q]))
            if param == "voxel":
                return darsia.make_voxel(np.array([[int(x) for x in p] for p in P])), darsia.make_voxel(np.array([[int(x) for x in q] for q in Q]))
            return darsia.make_voxel_center(np.array([[math.floor(x) for x in p] for p in P])), darsia.make_voxel_center(np.array([[math.floor(x) for x in q] for q in Q]))

        opts = dict(FIT_OPTIONS)
        if build == "fit-isometry":
            opts["isometry"] = True
        eff_param = param
        if buildc == "fit":
            ps, pd = fit_points(t, M)
            if api == "TC":
                T = darsia.AffineTransformation(dim)
                T.fit(ps, pd, opts)
                corr = darsia.TransformationCorrection(cs_src, cs_dst, T)
            else:
                corr = darsia.CoordinateTransformation(cs_src, cs_dst, ps, pd, fit_options=opts)
                T = corr.affine_correction.transformation
            if build == "fit-isometry" and sysv == "same":
                eff_param = "coord"  # documented: the isometry fit operates on coordinates of the voxel centres
            # with another destination system (same voxel size) source points are converted with the
            # source system and destination points with the destination system, so voxel p -> voxel p + k
            # still means: destination voxel j shows source voxel j - k (reference in index terms)
        else:
            if api == "TC":
                T = darsia.AffineTransformation(dim)
                T.set_dtype(two, two)
                corr = darsia.TransformationCorrection(cs_src, cs_dst, T)
            else:
                pi_, _ = fit_points([F(0)] * dim, eye_int(dim))
                corr = darsia.CoordinateTransformation(cs_src, cs_dst, pi_, pi_, fit_options=dict(FIT_OPTIONS))
                T = corr.affine_correction.transformation
            if mp[0] == "shift":
                if api == "TC":
                    T.set_parameters(translation=tf.copy())
                else:
                    T.set_parameters(translation=tf.copy(), scaling=1.0, rotation=[0.0] * (1 if dim == 2 else 3))
            else:
                T.set_parameters(translation=tf.copy(), scaling=1.0, rotation=list(angles))

        # ---- reference index map (exact)
        if eff_param != param:
            # isometry fit of voxel-type points: the same voxel map, expressed through centre coordinates
            As = a_matrix(dim, src.vs)
            k = [F(x) for x in mp[1]]
            dsts, srcs = index_map(src, dst, "coord", matvec(As, k), eye_int(dim))
            t_eff, M_eff = matvec(As, k), eye_int(dim)
        else:
            dsts, srcs = index_map(src, dst, param, t, M)
            t_eff, M_eff = t, M
        if sysv == "same":  # the general reference agrees with the two elementary ones
            probe_in = A.img
            ref = apply_map(probe_in, dst.shape, dsts, srcs)
            if mp[0] == "shift":
                assert np.array_equal(ref, shifted(probe_in, mp[1])), "reference self-check: shift"
            elif dim == 2 or cls.endswith("single-angle"):
                assert is_some_rot90(ref, probe_in, dim), "reference self-check: rot90"
            else:
                assert sorted(ref[..., 0].ravel() if ref.ndim > dim else ref.ravel()) == sorted(probe_in[..., 0].ravel() if ref.ndim > dim else probe_in.ravel()), "reference self-check: permutation"
        moved = any(v != vp for vp, v in zip(dsts, srcs))
        if moved:
            r.nontriv((shape, payload, param, build, api, sysv, mp))

        # ---- fitted maps: is the premise (the map IS the intended one) met?  Judged on the forward map only:
        # f_fit(f_exact^-1(x)) = x at every destination voxel centre (index), to 1/4 voxel.
        if buildc == "fit" and not (build == "fit-isometry" and sysv != "same"):
            Mf = np.array(M_eff, dtype=float)
            te = np.array([float(x) for x in t_eff])
            if eff_param == "coord":
                Ad = np.array([[float(x) for x in row] for row in a_matrix(dim, dst.vs)])
                X = np.array(dst.origin)[None, :] + (np.array(dsts, dtype=float) + 0.5) @ Ad.T
                unit = min(src.vs)
            elif eff_param == "center":
                X, unit = np.array(dsts, dtype=float) + 0.5, 1.0
            else:
                X, unit = np.array(dsts, dtype=float), 1.0
            pre = (X - te[None, :]) @ Mf  # rows: M^T (x - t)
            dev = float(np.max(np.abs(np.asarray(T.call_array(pre), dtype=float) - X))) / unit
            if not dev < 0.25:
                r.count("fit_missed")
                r.outcome(("fit-missed", cls, param))
                if mp[0] == "shift":
                    # the preconditioned fit solves a pure translation exactly; without it CoordinateTransformation
                    # (constructible only through the fit) could not express the map at all
                    r.fail(f"C09/fit/param={param}/{cls}", "point pairs related by an exact whole-voxel translation are fitted to within 1/4 voxel", map=mp, deviation_in_voxels=dev, translation=np.asarray(T.translation), scaling=float(T.scaling), rotation=np.asarray(T.rotation))
                continue

        # ---- explicit-state search over (correction, A, B)
        ops = [("A", False), ("B", False), ("arr", False)]
        if api == "TC":
            # the same data stored column-major (transposed views, Fortran-ordered readers), through the
            # call with overwrite and through correct_array directly
            ops += [("arrF", True), ("carrF", False)]
        if api == "TC" and sysv == "same":
            ops.insert(1, ("A", True))
        if api == "CT":
            ops = [("A", False), ("B", False)]

        def step(state, op):
            img = state["A"] if op[0] in ("A", "arr", "arrF", "carrF") else state["B"]
            before = img.img.copy()
            meta_before = img.metadata()
            if op[0] == "arr":
                out = state["corr"](img.img)
            elif op[0] == "arrF":
                out = state["corr"](np.asfortranarray(img.img.copy()), overwrite=op[1])
            elif op[0] == "carrF":
                out = state["corr"].correct_array(np.asfortranarray(img.img.copy()))
            elif api == "CT":
                out = state["corr"](img)
            else:
                out = state["corr"](img, overwrite=op[1])
            return img, before, meta_before, out

        def verify(hist, op, img, before, meta_before, out):
            want = apply_map(before, dst.shape, dsts, srcs)
            got = out if isinstance(out, np.ndarray) else getattr(out, "img", None)
            ok_type = isinstance(out, np.ndarray) if op[0] in ("arr", "arrF", "carrF") else isinstance(out, darsia.Image)
            good = ok_type and got is not None and got.shape == want.shape and np.array_equal(got, want)
            r.check(good, cell, "output array == the input moved by the map (zero-filled), exactly; also on a re-used object", map=mp, history=hist, shape=shape, payload=payload, system=sysv, got=got, want=want)
            if op[0] in ("A", "B") and op[1]:
                r.check(out is img, cell + "/overwrite", "overwrite=True returns the image it was given")
            if api == "CT" and isinstance(out, darsia.Image):
                mc = f"C09/correct/metadata/{apin}/{sysc}"
                m = out.metadata()
                r.check([float(x) for x in m["dimensions"]] == [float(x) for x in dst.dims()], mc, "result carries the destination system's dimensions", got=m["dimensions"], want=dst.dims())
                r.check(np.asarray(m["origin"], dtype=float).tolist() == [float(x) for x in dst.origin], mc, "result carries the destination system's origin", got=np.asarray(m["origin"]), want=dst.origin)
                rest = [k for k in meta_before if k not in ("dimensions", "origin")]
                same = all(_meq(m.get(k), meta_before[k]) for k in rest) and sorted(m) == sorted(meta_before)
                r.check(same and type(out) is type(img), mc, "all other metadata (space_dim, indexing, series, scalar, dates, times, name) and the image class are kept", got={k: repr(m.get(k)) for k in rest}, want={k: repr(meta_before[k]) for k in rest})
                v0 = np.asarray(out.coordinatesystem.coordinate(np.zeros(dim, dtype=int)), dtype=float).tolist()
                r.check(v0 == [float(x) for x in dst.origin] and [int(x) for x in out.coordinatesystem.shape] == list(dst.shape), mc, "the result's coordinate system is the destination one (shape, position of voxel 0)", got=v0)

        init = {"corr": corr, "A": A, "B": B}
        seen = {digest(init)}
        frontier = [(init, [])]
        transitions = 0
        while frontier:
            nxt = []
            for state, hist in frontier:
                for op in ops:
                    s2 = copy.deepcopy(state)
                    img, before, meta_before, out = step(s2, op)
                    transitions += 1
                    verify(hist + [list(op)], op, img, before, meta_before, out)
                    k = digest(s2)
                    if k not in seen:
                        if len(seen) >= 400:
                            r.count("cap_hit")
                            continue
                        seen.add(k)
                        nxt.append((s2, hist + [list(op)]))
            frontier = nxt
        nseq = 0
        # guard against a wrong state digest: all call sequences up to length 2 (3: thorough), no de-duplication
        if (not undedup_done) or mp[0] == "turn" or all(abs(k) <= 1 for k in mp[1]):
            undedup_done = True
            for n in range(1, (3 if tier == "thorough" else 2) + 1):
                for seq in itertools.product(ops, repeat=n):
                    s2 = copy.deepcopy(init)
                    h = []
                    for op in seq:
                        img, before, meta_before, out = step(s2, op)
                        h.append(list(op))
                        verify(h, op, img, before, meta_before, out)
                        nseq += 1
        r.count("states", len(seen))
        r.count("transitions", transitions + nseq)
        r.count("traces", transitions + nseq)
        r.outcome((shape, payload, sysv, [None if v is None else list(v) for v in srcs]))
        if moved:
            r.notes.setdefault("samples", [{"api": apin, "shape": list(shape), "payload": payload, "parametrisation": param, "build": build, "system": sysv, "map": [mp[0], list(mp[1])], "reachable_states": len(seen), "transitions": transitions + nseq}])


def _meq(a, b):
    if isinstance(a, np.ndarray) or isinstance(b, np.ndarray):
        return a is not None and b is not None and np.array_equal(np.asarray(a), np.asarray(b))
    return a == b


def run_window(case, r):
    import darsia

    nsrc, start, nwin, param = case["nsrc"], case["start"], case["nwin"], case["param"]
    W = 3
    src = darsia.Image((1.0 + np.arange(nsrc * W, dtype=float)).reshape(nsrc, W), dimensions=[float(nsrc), float(W)], origin=[0.0, float(nsrc)], space_dim=2, scalar=True)
    # the window: rows start .. start+nwin-1 of the source, same voxel size, placed where those rows are
    win = darsia.Image(np.zeros((nwin, W)), dimensions=[float(nwin), float(W)], origin=[0.0, float(nsrc - start)], space_dim=2, scalar=True)
    T = darsia.AffineTransformation(2)
    if param == "coord":
        two = darsia.make_coordinate(np.zeros((2, 2)))
        T.set_dtype(two, two)
        T.set_parameters(translation=np.zeros(2), scaling=1.0, rotation=[0.0])
    else:
        # voxel p of the source system is voxel p - start of the destination system
        two = darsia.make_voxel(np.zeros((2, 2), dtype=int))
        T.set_dtype(two, two)
        T.set_parameters(translation=np.array([-float(start), 0.0]), scaling=1.0, rotation=[0.0])
    corr = darsia.TransformationCorrection(src.coordinatesystem, win.coordinatesystem, T)
    want = src.img[start : start + nwin].copy()
    cell = f"C09/correct/window/param={param}"
    for call in ("array", "array-again"):
        got = corr(src.img.copy())
        r.check(isinstance(got, np.ndarray) and got.shape == want.shape and np.array_equal(got, want), cell, "a destination window far inside a long source shows exactly the source rows it covers", nsrc=nsrc, start=start, nwin=nwin, call=call, first_row_got=None if not isinstance(got, np.ndarray) or not got.size else got[0].tolist(), first_row_want=want[0].tolist())
    r.nontriv(case)
    r.count("states", 1)
    r.count("transitions", 2)
    r.count("traces", 1)
    r.outcome(case)


# ========================================================================= RotationCorrection
def run_rotcorr(case, r):
    import darsia

    shape, payload, tier = tuple(case["shape"]), case["payload"], case["tier"]
    dim = len(shape)
    src = Sys(shape, ORIGIN[dim], VS_ISO[dim])
    A = make_image(src, payload, 0, "A")
    B = make_image(src, payload, 1000, "B")
    anchor = [(n - 1) / 2 for n in shape]
    if dim == 2:
        rots = [[a] for a in QUARTER]
    else:
        rots = [[(a, ax)] for ax in "xyz" for a in QUARTER]
        rots += [[(PI / 2, p), (PI / 2, q)] for p, q in itertools.permutations("xyz", 2)]
        rots += [[(PI / 2, "x"), (PI / 2, "y"), (PI / 2, "z")]]
    for rot in rots:
        multi = dim == 3 and len(rot) > 1
        cell = f"C09/RotationCorrection/quarter-turn/dim={dim}" + ("" if dim == 2 else "/multi-angle" if multi else "/single-angle")
        C = darsia.RotationCorrection(anchor=list(anchor), rotations=rot)
        Rf = np.array(C.rotation, dtype=float)
        Mi = np.rint(Rf).astype(int)
        if not r.check(np.max(np.abs(Rf - Mi)) < 1e-12 and np.array_equal(Mi.T @ Mi, np.eye(dim, dtype=int)) and round(float(np.linalg.det(Mi))) == 1, cell + "/matrix", "quarter-turn angles give a signed permutation matrix with det 1", R=Rf):
            continue
        r.check(np.max(np.abs(Rf @ np.array(C.rotation_inv, dtype=float) - np.eye(dim))) < 1e-13, cell + "/inverse", "rotation_inv is the inverse of rotation", R=Rf, R_inv=C.rotation_inv)
        M = Mi.tolist()
        c = [F(n - 1, 2) for n in shape]
        Mc = matvec(M, c)
        t = [c[a] - Mc[a] for a in range(dim)]
        dsts, srcs = index_map(src, src, "voxel", t, M)
        assert all(v is not None for v in srcs)
        r.nontriv(("rotcorr", shape, payload, rot))
        for img in (A, A, B):
            want = apply_map(img.img, shape, dsts, srcs)
            out = C(img)
            r.check(isinstance(out, darsia.Image) and out.img.shape == want.shape and np.array_equal(out.img, want), cell, "a quarter turn about the centre voxel returns exactly the rotated array", rotations=rot, shape=shape, payload=payload, got=out.img, want=want)
            r.count("transitions")
            r.count("traces")
        r.outcome(("rotcorr", shape, rot, [list(v) for v in srcs]))
    r.count("states", 1)


# ===================================================================================== entry
def run_case(case, r):
    k = case["kind"]
    if k == "affine":
        run_affine(case, r)
    elif k == "affine-typed":
        run_affine_typed(case, r)
    elif k == "corr":
        run_corr(case, r)
    elif k == "rotcorr":
        run_rotcorr(case, r)
    elif k == "window":
        run_window(case, r)
    else:
        raise AssertionError(k)
