"""C06 — finite-volume operators obey the discrete divergence theorem (E-lattice, exhaustive).

All operators under test are linear in the data (except the harmonic mean), so each is
compared on the *complete impulse basis* with an explicit-loop reference operator: that
decides the identities for every flux / field of that shape.  The reference addresses
cells and faces through the grid's connectivity tables (checked independently by C07).
Voxel sizes and data are dyadic, so every comparison is exact (==), except the harmonic
mean (1e-14 relative).
"""

from __future__ import annotations

import itertools

import numpy as np
import scipy.sparse as sps

from .c07 import shape_class

ID = "C06"
LEVEL = "exploration"
EXHAUSTIVE = True
RULE = (
    "every grid shape with extents 1..N per axis (bounds) x voxel-size forms {float 1.0, float 0.5, per-axis dyadic list}; per shape: divergence and mass "
    "matrices entry by entry; face_to_cell on the complete face-impulse basis x evaluation points {None} + P^dim; linear combinations "
    "(1,1),(2,-3) of face pairs; cell_to_face_average for 4 cell-quantity forms x {arithmetic, harmonic} x 9 ordered value pairs from "
    "{1,2,4} alternating along every axis + a generic field; tangential/full reconstruction of constant fields. Non-trivial = the grid "
    "has at least one face; distinct = distinct (shape, voxel form)."
)
ASSUMPTIONS = [
    "grid connectivity tables are those verified by C07",
    "every case first builds and uses the operators of a same-shape grid with the other voxel sizes (history of length 2)",
    "dyadic data: comparisons exact; harmonic mean compared to 1e-14 relative",
]

BOUNDS = {"quick": {1: 12, 2: 7, 3: 5}, "thorough": {1: 24, 2: 9, 3: 6}}
PTS = {"quick": [0.0, 0.25, 1.0], "thorough": [0.0, 0.25, 0.5, 0.75, 1.0]}
VS = {1: [0.5], 2: [0.5, 2.0], 3: [0.5, 2.0, 0.25]}


def describe(tier):
    return {"max_extent_per_dim": BOUNDS[tier], "eval_points_per_axis": PTS[tier], "voxel_sizes": ["1.0 (float)", "0.5 (float, all axes)", VS]}


def cases(tier):
    out = []
    for dim in (1, 2, 3):
        n = BOUNDS[tier][dim]
        for s in itertools.product(range(1, n + 1), repeat=dim):
            for vs in ("unit", "scalar", "aniso", "array", "tuple", "tiny", "near-cubic"):
                if vs in ("tuple", "tiny", "near-cubic") and (dim == 1 or int(np.prod(s)) > 64):
                    continue
                out.append({"shape": list(s), "vs": vs, "tier": tier})
    out.sort(key=lambda c: (int(np.prod(c["shape"])), len(c["shape"]), c["shape"], c["vs"]))
    return out


def run_case(case, r):
    import darsia

    shape = tuple(case["shape"])
    dim = len(shape)
    tier = case["tier"]
    cls = shape_class(shape)
    # "unit": voxel_size=1.0 (float); "scalar": voxel_size=0.5 (one float for all axes);
    # "aniso": a list with one dyadic size per axis
    # "array": the voxel sizes are handed over as a float64 ndarray which the caller goes on using
    # (scales it in place right after the grid was built, as in a loop over refinement levels)
    # "tuple": per-axis sizes as a tuple; "tiny": the anisotropic sizes x 2^-15 (micro-CT voxels in metres);
    # "near-cubic": sizes that differ in the 6th digit only -- anisotropy is anisotropy at every scale
    near = np.array([1.0, 1.0 + 2.0**-18, 1.0 - 2.0**-18][:dim])
    vs = {"unit": np.ones(dim), "scalar": np.full(dim, 0.5), "aniso": np.array(VS[dim]), "array": np.array(VS[dim]), "tuple": np.array(VS[dim]), "tiny": np.array(VS[dim]) * 2.0**-15, "near-cubic": near}[case["vs"]]
    vs_arg = {"unit": 1.0, "scalar": 0.5, "aniso": list(VS[dim]), "array": np.array(VS[dim], dtype=float), "tuple": tuple(VS[dim]), "tiny": [v * 2.0**-15 for v in VS[dim]], "near-cubic": near.tolist()}[case["vs"]]
    # start from a non-initial process state: operators of a grid of the SAME shape but the
    # OTHER voxel sizes (and of the transposed shape) have been built and used before, so any
    # state kept between grids (module-level caches keyed too coarsely) shows up
    for oshape, ovs in ((shape, list(VS[dim]) if case["vs"] not in ("aniso", "array", "tuple") else 0.5), (shape[::-1], 1.0 if case["vs"] != "unit" else list(VS[dim]))):
        og = darsia.Grid(oshape, ovs)
        darsia.FVDivergence(og), darsia.FVMass(og, "cells"), darsia.FVMass(og, "faces")
        if og.num_faces:
            darsia.face_to_cell(og, np.ones(og.num_faces))
            darsia.cell_to_face_average(og, np.ones(oshape), "harmonic")
            if dim >= 2:
                darsia.FVFullFaceReconstruction(og)(np.ones(og.num_faces))
    g = darsia.Grid(shape, vs_arg)
    if case["vs"] == "array":
        vs_arg *= 2.0  # the caller's array, not the grid's

    def cell(clause):
        return f"C06/{clause}/dim={dim}/{cls}/vs={case['vs']}"

    nc, nf = int(g.num_cells), int(g.num_faces)
    conn = np.asarray(g.connectivity)
    rc = np.asarray(g.reverse_connectivity)
    ci = np.asarray(g.cell_index)
    pos = {int(ci[idx]): idx for idx in np.ndindex(*shape)}
    axis_of = np.zeros(nf, dtype=int)
    for d in range(dim):
        axis_of[np.asarray(g.faces[d], dtype=int)] = d
    area = [float(np.prod([vs[a] for a in range(dim) if a != d])) for d in range(dim)]
    vol = float(np.prod(vs))
    if nf > 0:
        r.nontriv((shape, case["vs"]))

    # ---- the operators are built on ONE grid object, repeatedly: assembling them leaves the grid
    # (face areas, connectivity tables, ...) unchanged and the second assembly equals the first
    from mc.canon import digest as _dg

    g_before = _dg(vars(g))
    first_ops = {}
    for rep in range(2):
        ops_now = {"div": darsia.FVDivergence(g).mat, "mass-cells": darsia.FVMass(g, "cells").mat, "mass-faces": darsia.FVMass(g, "faces").mat}
        if dim >= 2 and nf:
            ops_now["tangential"] = sps.vstack(darsia.FVTangentialFaceReconstruction(g).mat)
            darsia.FVFullFaceReconstruction(g)
        for name, m in ops_now.items():
            if m is None:
                continue
            d_ = np.asarray(m.todense())
            if rep == 0:
                first_ops[name] = d_
            else:
                r.check(np.array_equal(d_, first_ops[name]), cell("reassembly"), "an operator assembled a second time on the same grid object equals the first assembly", operator=name)
        r.check(_dg(vars(g)) == g_before, cell("grid-unchanged"), "assembling the finite-volume operators leaves the grid object unchanged", after_assemblies=rep + 1, face_vol=g.face_vol)

    # ---- face areas
    r.check([float(x) for x in g.face_vol] == area, cell("face-area"), "face area = product of the other voxel sizes", got=g.face_vol, want=area)

    # ---- divergence: D[c0,f]=+A, D[c1,f]=-A  (outflow of the lower cell is positive)
    D = darsia.FVDivergence(g).mat
    Dd = np.asarray(D.todense()) if nf else np.zeros((nc, 0))
    Dref = np.zeros((nc, nf))
    Gref = np.zeros((nf, nc))  # face difference (upper minus lower) times area
    for f in range(nf):
        a = area[axis_of[f]]
        Dref[conn[f, 0], f] += a
        Dref[conn[f, 1], f] -= a
        Gref[f, conn[f, 1]] += a
        Gref[f, conn[f, 0]] -= a
    r.check(D.shape == (nc, nf), cell("divergence"), "divergence maps faces to cells", got=list(D.shape))
    if D.shape == (nc, nf):
        r.check(np.array_equal(Dd, Dref), cell("divergence"), "div[c,f] = +-face_area, + on the lower-index cell (net outflow)", got=Dd, want=Dref)
        r.check(np.array_equal(Dd.sum(axis=0), np.zeros(nf)), cell("divergence"), "total divergence of every face flux vanishes")
        r.check(np.array_equal(Dd, -Gref.T), cell("divergence"), "divergence is the negative adjoint of the face difference")
        # applied form on the impulse basis (what the solvers use: mat.dot)
        okb = True
        for f in range(nf):
            e = np.zeros(nf)
            e[f] = 1.0
            if not np.array_equal(D.dot(e), Dref[:, f]):
                okb = False
                break
        r.check(okb, cell("divergence"), "div.dot(e_f) is the net outflow of the two neighbours of f")
    r.outcome((shape, case["vs"], Dd.tolist()))

    # ---- mass matrices
    Mc = darsia.FVMass(g, "cells").mat
    r.check(np.array_equal(np.asarray(Mc.todense()), vol * np.eye(nc)), cell("mass-cells"), "cell mass matrix = voxel volume * I")
    Mf = darsia.FVMass(g, "faces").mat
    Mfd = np.asarray(Mf.todense()) if nf else np.zeros((0, 0))
    r.check(Mf.shape == (nf, nf) and np.array_equal(Mfd, vol * np.eye(nf)), cell("mass-faces"), "lumped face mass matrix = voxel volume * I")

    # ---- face_to_cell (RT0 reconstruction)
    def ref_f2c(flux, pt):
        out = np.zeros((*shape, dim))
        for c in range(nc):
            idx = pos[c]
            for d in range(dim):
                lo, up = rc[d, c, 0], rc[d, c, 1]
                ulo = flux[lo] if lo != -1 else 0.0
                uup = flux[up] if up != -1 else 0.0
                out[idx + (d,)] = (1 - pt[d]) * ulo + pt[d] * uup
        return out

    pts = [None] + [np.array(p) for p in itertools.product(PTS[tier], repeat=dim)]
    if dim == 3 and tier == "quick" and nc > 27:
        pts = [None] + [np.array(p) for p in itertools.product([0.0, 1.0], repeat=dim)] + [np.array([0.25, 1.0, 0.0]), np.array([0.25, 0.25, 0.25])]
    basis = np.eye(nf)
    for pt in pts:
        ptr = np.full(dim, 0.5) if pt is None else pt
        arg = None if pt is None else (pt if dim > 1 else float(pt[0]))
        # reference operator as a (cells*dim) x faces matrix, built by loops once per pt
        ok = True
        bad = None
        for f in range(nf):
            got = darsia.face_to_cell(g, basis[f].copy(), arg if arg is None or dim > 1 else arg)
            want = ref_f2c(basis[f], ptr)
            if got.shape != want.shape or not np.array_equal(got, want):
                ok, bad = False, (f, got, want)
                break
        r.check(
            ok,
            cell("face_to_cell"),
            "cell flux component d = (1-pt_d)*u(lower face) + pt_d*u(upper face), 0 on the outer boundary",
            pt=None if pt is None else pt.tolist(),
            face=None if bad is None else bad[0],
            got=None if bad is None else bad[1],
            want=None if bad is None else bad[2],
        )
    # additivity / homogeneity on face pairs (detects a map that stopped being linear)
    if nf >= 2:
        pairs = list(itertools.combinations(range(nf), 2)) if nf <= 8 else [(f, (f + 1) % nf) for f in range(nf)]
        ptl = np.full(dim, 0.25)
        okl = True
        for i, j in pairs:
            for a, b in ((1.0, 1.0), (2.0, -3.0)):
                u = a * basis[i] + b * basis[j]
                got = darsia.face_to_cell(g, u, ptl if dim > 1 else 0.25)
                want = a * ref_f2c(basis[i], ptl) + b * ref_f2c(basis[j], ptl)
                if not np.array_equal(got, want):
                    okl = False
                    break
            if not okl:
                break
        r.check(okl, cell("face_to_cell-linear"), "face_to_cell is additive and homogeneous")
    # results of earlier calls are not changed by later calls
    if nf >= 2:
        first = darsia.face_to_cell(g, basis[0].copy())
        keep1 = first.copy()
        darsia.face_to_cell(g, basis[1].copy())
        r.check(np.array_equal(first, keep1), cell("face_to_cell"), "a later call leaves the array returned by an earlier call unchanged")
        fa = darsia.cell_to_face_average(g, np.ones(shape), "arithmetic")
        keepa = fa.copy()
        darsia.cell_to_face_average(g, 3.0 * np.ones(shape), "arithmetic")
        r.check(np.array_equal(fa, keepa), cell("average-arithmetic-scalar"), "a later call leaves the array returned by an earlier call unchanged")
    # the input flux must not be modified
    u = np.arange(1.0, nf + 1)
    u0 = u.copy()
    darsia.face_to_cell(g, u)
    r.check(np.array_equal(u, u0), cell("face_to_cell"), "face_to_cell leaves its input unchanged")

    # the caller may keep ONE flux array and update it in place between calls (that is what an
    # iterative solver does): the result follows the current contents, not the contents at the
    # time of an earlier call with the same array object and the same grid
    if nf >= 1:
        u = np.arange(1.0, nf + 1)
        for step, upd in enumerate(("first", "scaled", "assigned", "one-entry")):
            if upd == "scaled":
                u *= -2.0
            elif upd == "assigned":
                u[:] = np.arange(nf, 0, -1.0)
            elif upd == "one-entry":
                u[nf - 1] += 8.0
            for ptu in (None, np.full(dim, 0.25)):
                got = darsia.face_to_cell(g, u, ptu if ptu is None or dim > 1 else 0.25)
                want = ref_f2c(u.copy(), np.full(dim, 0.5) if ptu is None else ptu)
                r.check(np.array_equal(got, want), cell("face_to_cell-inplace-updated-input"), "the reconstruction follows the current contents of a flux array that was updated in place since the last call", update=upd, pt=None if ptu is None else ptu.tolist(), got=got, want=want)
        c = np.ones(shape)
        for upd, val in (("first", 1.0), ("scaled", 4.0), ("assigned", 2.0)):
            c[...] = val
            got = darsia.cell_to_face_average(g, c, "harmonic")
            r.check(np.array_equal(got, np.full(nf, val)), cell("average-inplace-updated-input"), "the average follows the current contents of a cell array that was updated in place since the last call", update=upd, got=got)

    # ---- cell_to_face_average
    vals = [1.0, 2.0, 4.0]
    fields = []
    for a, b in itertools.product(vals, repeat=2):
        for d in range(dim):
            fld = np.zeros(shape)
            for idx in np.ndindex(*shape):
                fld[idx] = a if idx[d] % 2 == 0 else b
            fields.append(fld)
    gen = np.zeros(shape)
    for idx in np.ndindex(*shape):
        gen[idx] = vals[(idx[0] + 2 * (idx[1] if dim > 1 else 0) + (idx[2] if dim > 2 else 0)) % 3]
    fields.append(gen)

    def ref_avg(comp_fields, mode):
        out = np.zeros(nf)
        for f in range(nf):
            d = axis_of[f]
            v0 = comp_fields[d][pos[int(conn[f, 0])]]
            v1 = comp_fields[d][pos[int(conn[f, 1])]]
            out[f] = 0.5 * (v0 + v1) if mode == "arithmetic" else 2.0 * v0 * v1 / (v0 + v1)
        return out

    for mode in ("arithmetic", "harmonic"):
        oks = {"scalar": True, "scalar1": True, "vector": True, "tensor": True}
        # the arithmetic mean is defined for any sign: the same fields shifted by -3 give
        # values in {-2, -1, 1}; the harmonic mean is used on positive quantities only
        use = fields + [f - 3.0 for f in fields] if mode == "arithmetic" else fields
        for k, fld in enumerate(use):
            others = [use[(k + 1 + j) % len(use)] for j in range(dim)]
            comp = [fld if j == 0 else others[j] for j in range(dim)]  # component j differs from component 0
            forms = {
                "scalar": (fld, [fld] * dim),
                "scalar1": (fld[..., None], [fld] * dim),
            }
            if dim > 1:  # for dim == 1 the shape (n,1) is the scalar form
                forms["vector"] = (np.stack(comp, axis=-1), comp)
            ten = np.full((*shape, dim, dim), 64.0)
            for j in range(dim):
                ten[..., j, j] = comp[j]
            forms["tensor"] = (ten, comp)
            # the same quantities stored with another dtype (labels, indicator-like integer fields,
            # single precision): the values {1,2,4}, {-2,-1,1} are exact in all of them
            if k % 4 == 0:
                for dt in ("int64", "int32", "float32") + (("uint8",) if min(float(c.min()) for c in comp) >= 0 else ()):
                    forms[f"scalar:{dt}"] = (fld.astype(dt), [fld] * dim)
                    if dim > 1:
                        forms[f"vector:{dt}"] = (np.stack(comp, axis=-1).astype(dt), comp)
            for name, (arg, compf) in forms.items():
                got = darsia.cell_to_face_average(g, arg.copy(), mode)
                want = ref_avg(compf, mode)
                if ":" in name:
                    tolr = 1e-6 if name.endswith("float32") else 1e-14
                    if not (got.shape == want.shape and np.allclose(np.asarray(got, dtype=float), want, rtol=tolr, atol=0)):
                        r.fail(cell(f"average-{mode}-{name.split(':')[0]}-dtype"), f"{mode} mean of the two neighbours, whatever the dtype the cell quantity is stored in", dtype=name.split(":")[1], field=k, got=got, want=want)
                    else:
                        r.ok()
                    continue
                same = got.shape == want.shape and (np.array_equal(got, want) if mode == "arithmetic" else np.allclose(got, want, rtol=1e-14, atol=0))
                if not same and oks[name]:
                    oks[name] = False
                    r.fail(cell(f"average-{mode}-{name}"), f"{mode} mean of the two neighbours (per orientation for vector / tensor-diagonal input)", field=k, got=got, want=want)
        for name, okv in oks.items():
            if okv:
                r.ok()

    # ---- harmonic mean on the numeric classes a mobility can take: exactly zero, very small, very large
    if nf >= 1:
        for lo_, hi_, tagv in ((0.0, 0.0, "both-zero"), (0.0, 3.0, "one-zero"), (2.0**-600, 2.0**-598, "tiny"), (2.0**600, 2.0**598, "huge")):
            fld = np.zeros(shape)
            for idx in np.ndindex(*shape):
                fld[idx] = lo_ if sum(idx) % 2 == 0 else hi_
            with np.errstate(all="ignore"):
                got = np.asarray(darsia.cell_to_face_average(g, fld.copy(), "harmonic"), dtype=float)
            want = np.zeros(nf)
            for f in range(nf):
                v0, v1 = fld[pos[int(conn[f, 0])]], fld[pos[int(conn[f, 1])]]
                # 2 / (1/v0 + 1/v1), evaluated without overflow: min * (2 / (1 + min/max)); 0 if a value is 0
                mn, mx = min(v0, v1), max(v0, v1)
                want[f] = 0.0 if mn == 0.0 else mn * (2.0 / (1.0 + mn / mx))
            r.check(got.shape == want.shape and bool(np.all(np.isfinite(got))) and np.allclose(got, want, rtol=1e-12, atol=0.0), cell("average-harmonic-range"), "the harmonic mean of two neighbours is finite and correct for zero, very small and very large values", values=tagv, got=got[:4], want=want[:4])

    # ---- tangential and full reconstruction of constant fields
    if dim >= 2:
        a = np.array([1.0, -2.0, 4.0])[:dim]
        normal = np.zeros(nf)
        for f in range(nf):
            normal[f] = a[axis_of[f]]
        tan = darsia.FVTangentialFaceReconstruction(g)
        tl = tan(normal.copy(), concatenate=False)
        full = darsia.FVFullFaceReconstruction(g)(normal.copy())
        okt, okf, okn = True, True, full.shape == (nf, dim)
        for d in range(dim):
            perp = [x for x in range(dim) if x != d]
            for f in np.asarray(g.interior_faces[d], dtype=int).ravel():
                for i, dp in enumerate(perp):
                    if tl[i][f] != a[dp]:
                        okt = False
                if okn and not np.array_equal(full[f], a):
                    okf = False
        if okn:
            okn = np.array_equal(full[np.arange(nf), axis_of], normal)
        r.check(okt, cell("tangential"), "tangential reconstruction reproduces a constant field on interior faces")
        r.check(okn, cell("full-reconstruction"), "the normal component of the full reconstruction is the given normal flux, in the column of the face's axis")
        r.check(okf, cell("full-reconstruction"), "full reconstruction of a constant field equals the field on interior faces (normal and tangential parts in the right columns)")
        # results are the caller's: a later call of the same operator object on another flux must
        # not change what an earlier call returned (no shared output buffers)
        keep = [x.copy() for x in tl]
        other = 2.0 * normal + 1.0
        tl2 = tan(other, concatenate=False)
        r.check(all(np.array_equal(x, y) for x, y in zip(tl, keep)), cell("tangential"), "a second call of the operator object leaves the arrays returned by the first call unchanged")
        r.check(all(np.array_equal(y, 2.0 * x + (1.0 if np.any(x) or True else 0.0) * (tan.mat[i].dot(np.ones(nf)))) for i, (x, y) in enumerate(zip(keep, tl2))), cell("tangential"), "the tangential reconstruction is affine-linear in the flux")
        # concatenated form is the list form stacked
        tc = tan(normal.copy())
        r.check(np.array_equal(tc, np.concatenate(tl, axis=0)), cell("tangential"), "concatenated output equals the stacked per-direction outputs")
