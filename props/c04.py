"""C04 — Wasserstein solvers: mass balance, self-consistency, status (E-lattice x E-fault).

Every configuration of the option lattice is executed on the real solver classes; the
flat solution is captured by wrapping the instance's `_solve`, the inner linear solves
by wrapping the instance's `linear_solve` (choice point {real answer, raise}).  The
fault tree of every base run is enumerated with the deviation-bounded explorer
(mc.fault); a one-shot failure ends the iteration loop, so bound 1 already exhausts the
tree (bound 2 is run and finds no further executions).
"""

from __future__ import annotations

import itertools

import numpy as np

from mc import fault

from . import _wass as Wh

ID = "C04"
LEVEL = "model_checking"
EXHAUSTIVE = True
RULE = (
    "option lattice: grids {(2),(5),(2,2),(3,4),(4,1),(1,4),(2,2,2),(3,2,1)} x voxel sizes {unit, dyadic anisotropic} x mass pairs "
    "{corner->corner, corner->centre, dense, sparse} x {Newton, Bregman fixed, Bregman adaptive} x 3 L1 modes x 5 mobility modes x "
    "{(full,direct),(pressure,direct),(pressure,amg),(pressure,cg),(flux_reduced,direct)} x Anderson {off, depth 2, depth 2 with restart 2} x cell weight {None, 2}; every configuration is followed by a second computation (the reversed pair) on the same solver object; status ladder: each stopping criterion alone with tolerance 2^0..2^-30 on masses x16 and x1/16; two-call fault histories (fault-free call, then the reversed pair with the k-th solve failing); "
    "thorough = full product, quick = covering design in which the full (method x L1 x mobility x formulation) product is run on "
    "rotating (grid, voxel, mass, Anderson, weight) selections. Status/fault lattice: 3 grids x 2 masses x 3 methods x "
    "{(full,direct),(pressure,amg)} x Anderson {off, depth 2, depth 2 restart 2} x num_iter {1,2,3,6} x tolerances {default, 1e-10, 0}; each base run expanded by "
    "its complete fault tree (each in-loop linear solve raises once). Non-trivial = run with non-zero flux; distinct = distinct "
    "configuration (+ fault schedule)."
)
ASSUMPTIONS = [
    "PETSc back-end not installed, not explored",
    "mass balance tolerance 1e-9 x scale for direct back-ends, 1e-6 x scale for AMG/CG run with atol=rtol=1e-10; scale = largest term of the balance equation or of the linear systems solved (|A||x|, |b|): backward-error reading of 'linear-solver precision'",
    "fault model: one-shot exception raised by linear_solve inside the iteration loop (initial Darcy solve and Bregman's final pressure solve are not deviated)",
]

GRIDS = [(2,), (5,), (2, 2), (3, 4), (4, 1), (1, 4), (2, 2, 2), (3, 2, 1)]
MASSES = ["corner-to-corner", "corner-to-centre", "dense", "sparse"]
METHODS = ["newton", "bregman", "bregman-adaptive"]
FORMS = [("full", "direct"), ("pressure", "direct"), ("pressure", "amg"), ("pressure", "cg"), ("flux_reduced", "direct")]
LSO = {"atol": 1e-10, "rtol": 1e-10, "maxiter": 200}


def describe(tier):
    return {"grids": GRIDS, "masses": MASSES, "methods": METHODS, "l1_modes": Wh.L1_MODES, "mobility_modes": Wh.MOBILITY_MODES, "formulations": FORMS, "num_iter_option_lattice": 6, "fault_bound": 2}


def cases(tier):
    out = []
    core = list(itertools.product(METHODS, Wh.L1_MODES, Wh.MOBILITY_MODES, FORMS))
    if tier == "thorough":
        for g in GRIDS:
            for vsk in ("unit", "aniso"):
                for m in MASSES:
                    for aa in (0, 2, -2):
                        for w in (None, 2.0):
                            out.append({"kind": "options", "shape": list(g), "vs": vsk, "mass": m, "aa": aa, "weight": w, "combos": "all"})
    else:
        # covering design: every core combination on 3 rotating environments
        envs = list(itertools.product(GRIDS, ("unit", "aniso"), MASSES, (0, 2, -2), (None, 2.0)))
        buckets = {}
        for p in range(3):
            for i, combo in enumerate(core):
                e = envs[(i * 7 + p * 53 + (i // len(envs))) % len(envs)]
                buckets.setdefault(e, []).append(i)
        for e, idxs in sorted(buckets.items(), key=lambda kv: (int(np.prod(kv[0][0])), str(kv[0]))):
            out.append({"kind": "options", "shape": list(e[0]), "vs": e[1], "mass": e[2], "aa": e[3], "weight": e[4], "combos": sorted(set(idxs))})
    # iterative back-ends with the library's DEFAULT tolerances, on mass distributions of very small
    # magnitude (x 2^-30): accuracy must be relative to the size of the data
    for g in [(5,), (3, 4), (2, 2, 2)]:
        for m in ("corner-to-corner", "dense"):
            out.append({"kind": "tiny-default", "shape": list(g), "mass": m})
    # status ladder: one stopping criterion decides alone, its tolerance runs over 2^0 .. 2^-30, on
    # problems whose distance is well above and well below 1 (relative and absolute readings of
    # a criterion differ by that factor)
    for g in [(3, 4), (2, 2, 2)] if tier == "thorough" else [(3, 4)]:
        for m in ("dense", "sparse"):
            for method in METHODS:
                for scale in (16.0, 0.0625):
                    out.append({"kind": "status-ladder", "shape": list(g), "mass": m, "method": method, "scale": scale})
    # storage type of the mass images: the same (exactly representable) masses stored as float32 or
    # as integers are the same distributions
    for g in [(5,), (3, 4), (2, 2, 2)]:
        for m in ("corner-to-corner", "sparse"):
            for method in METHODS:
                out.append({"kind": "image-dtype", "shape": list(g), "mass": m, "method": method})
    fgrids = [(5,), (3, 4), (2, 2, 2)] if tier == "thorough" else [(5,), (3, 4)]
    for g in fgrids:
        for m in ("corner-to-corner", "dense"):
            for method in METHODS:
                for form in (("full", "direct"), ("pressure", "amg")):
                    for aa in (0, 2, -2):
                        out.append({"kind": "fault", "shape": list(g), "vs": "aniso", "mass": m, "method": method, "form": list(form), "aa": aa, "num_iters": [1, 2, 3, 6] if tier == "thorough" else [1, 3, 6]})
    return out


def opts_for(method, l1, mob, form, aa, num_iter, extra=None):
    o = {"l1_mode": l1, "mobility_mode": mob, "formulation": form[0], "linear_solver": form[1], "num_iter": num_iter, "linear_solver_options": dict(LSO)}
    if aa:  # aa = 2: depth 2 without restart; aa = -2: depth 2, restart every 2 iterations
        o["aa_depth"] = abs(aa)
        if aa < 0:
            o["aa_restart"] = 2
    if method == "bregman-adaptive":
        o["bregman_update_every"] = 2
    if extra:
        o.update(extra)
    return o


def mname(method):
    return "newton" if method == "newton" else "bregman"


def criteria_met(method, hist, o):
    """Re-evaluate the documented stopping criteria at the last recorded iteration."""
    big = np.finfo(float).max
    tr, ti, td = o.get("tol_residual", big), o.get("tol_increment", big), o.get("tol_distance", big)
    with np.errstate(all="ignore"):
        if method == "newton":
            if len(hist["residual"]) < 3:
                return False
            return bool(hist["residual"][-1] < tr * hist["residual"][0] and hist["flux_increment"][-1] < ti * hist["flux_increment"][0] and hist["distance_increment"][-1] < td)
        if len(hist["aux_force_increment"]) < 3:
            return False
        return bool(
            hist["aux_force_increment"][-1] < ti * hist["aux_force_increment"][0]
            and hist["distance_increment"][-1] / hist["distance"][-1] < td
            and hist["mass_conservation_residual"][-1] < tr
        )


def check_run(r, res, ref, m1, m2, method, l1, form, weight, o, tagc):
    """Invariants (1)-(4) of one completed execution."""
    cond = "ill-conditioned" if res.weight_ratio > 1e8 else "well-conditioned"
    # Anderson mixing applied after the iteration has already converged to rounding level
    # (residual dropped by 1e-10 before the last mixing step): a class of its own, defined from
    # the run's own convergence history
    try:
        h = res.info["convergence_history"].get("residual", [])
        if o.get("aa_depth", 0) > 0 and len(h) >= 3 and h[0] > 0 and min(h[1:-1]) <= 1e-10 * h[0]:
            cond += "/anderson-after-convergence"
    except Exception:  # noqa: BLE001
        pass
    fb = f"{form[0]}-{form[1]}"
    diff = ref.vol * ref.flat(np.asarray(m2) - np.asarray(m1))
    scale = max(1.0, float(np.max(np.abs(diff))))
    flux = res.flux
    if not np.all(np.isfinite(flux)) or not np.isfinite(res.distance):
        r.fail(f"C04/finite/{mname(method)}/{fb}/{cond}", "the returned distance and flux are finite numbers", distance=res.distance, cfg=tagc)
        return
    # (1) discrete mass balance; "solver precision" is relative to the largest term of the
    # balance equation (face area x flux, or the mass difference)
    if ref.nf:
        scale = max(scale, float(np.max(ref.area[ref.axis_of] * np.abs(flux))))
    # ... or of the linear systems the flux was obtained from (backward-error sense: a solver
    # cannot be more precise than eps x (|A||x| + |b|) of the system it was handed)
    scale = max(scale, res.system_scale)
    mb = float(np.max(np.abs(ref.divergence(flux) - diff))) if ref.nc else 0.0
    tol = (1e-9 if form[1] == "direct" else 1e-6) * scale
    r.check(mb <= tol, f"C04/mass-balance/{mname(method)}/{fb}/{cond}", "each cell's net outflow equals destination minus source mass (to linear-solver precision)", error=mb, tol=tol, weight_ratio=res.weight_ratio, cfg=tagc)
    # (2) reported distance = transport cost of exactly that flux
    cost = ref.cost(flux, l1, None if weight is None else np.full(ref.shape, weight))
    r.check(abs(res.distance - cost) <= 1e-10 * max(1.0, abs(cost)), f"C04/distance-is-cost-of-flux/{mname(method)}/l1={l1}", "the reported distance is the documented transport cost of the returned flux", distance=res.distance, cost=cost, cfg=tagc)
    # (3) auxiliary outputs derive from the same solution
    info = res.info
    w = 1.0 if weight is None else weight
    cell_flux = ref.rt0(flux, np.full(ref.dim, 0.5))
    want_flux = np.zeros(ref.shape + (ref.dim,))
    want_flux[tuple(ref.pos.T)] = cell_flux
    r.check(np.allclose(info["flux"], want_flux, rtol=1e-12, atol=1e-14), f"C04/info/flux/{mname(method)}", "info['flux'] is the cell-centre reconstruction of the returned face flux", cfg=tagc)
    r.check(np.allclose(info["weighted_flux"], w * want_flux, rtol=1e-12, atol=1e-14), f"C04/info/weighted_flux/{mname(method)}", "info['weighted_flux'] = cell weight x info['flux']", cfg=tagc)
    dens = ref.unflat(ref.density(flux, l1, None if weight is None else np.full(ref.shape, weight)))
    r.check(np.allclose(info["transport_density"], dens, rtol=1e-10, atol=1e-14), f"C04/info/transport_density/{mname(method)}/l1={l1}", "info['transport_density'] is the cell-wise cost density of the returned flux", cfg=tagc)
    r.check(np.array_equal(info["mass_diff"], np.asarray(m2) - np.asarray(m1)), f"C04/info/mass_diff/{mname(method)}", "info['mass_diff'] = destination - source")
    r.check(np.array_equal(np.asarray(info["pressure"]), ref.unflat(res.pressure)), f"C04/info/pressure/{mname(method)}", "info['pressure'] is the pressure block of the same solution in grid layout")
    pin = float(abs(res.pressure[res.obj.constrained_cell_flat_index]))
    pscale = max(1.0, float(np.max(np.abs(res.pressure))))
    r.check(pin <= 1e-9 * pscale, f"C04/info/pressure-pinned/{mname(method)}/{fb}", "the pressure vanishes at the reference cell", value=pin, cfg=tagc)
    r.check(abs(res.distance - float(np.asarray(res.captured[0]))) == 0.0, f"C04/info/distance/{mname(method)}", "the returned distance is the one computed by the solve")
    # (4) converged only if the stopping criteria were met
    conv = bool(info["converged"])
    if conv:
        r.check(criteria_met(mname(method), info["convergence_history"], o), f"C04/status/converged-implies-criteria/{mname(method)}", "a run is reported converged only if its stopping criteria hold at the last recorded iteration", iterations=len(info["convergence_history"]["distance"]), cfg=tagc)
    else:
        r.ok()
    return conv


def run_options(case, r):
    shape, vsk, mk, aa, weight = tuple(case["shape"]), case["vs"], case["mass"], case["aa"], case["weight"]
    dim = len(shape)
    vs = Wh.voxel_sizes(dim, vsk)
    m1, m2 = Wh.mass_pairs(shape, mk)
    core = list(itertools.product(METHODS, Wh.L1_MODES, Wh.MOBILITY_MODES, FORMS))
    idxs = range(len(core)) if case["combos"] == "all" else case["combos"]
    ref = None
    for i in idxs:
        method, l1, mob, form = core[i]
        o = opts_for(method, l1, mob, form, aa, 6)
        tagc = {"shape": shape, "vs": vsk, "mass": mk, "method": method, "l1": l1, "mobility": mob, "form": form, "aa": aa, "weight": weight}
        # the same solver object is used for a second, different pair afterwards (the reversed
        # transport): both results have to satisfy every invariant
        # (the reversed transport of TWICE the mass: |flux| of the plain reversed pair would repeat the
        # first run's transport density and hide a result of the first run that the second overwrites)
        n1, n2 = 2.0 * m2, 2.0 * m1
        res = Wh.run_solver(mname(method), shape, vs, m1, m2, o, weight=weight, then=(n1, n2))
        if res.exc is not None:
            r.fail(f"C04/usable/{mname(method)}/{form[0]}-{form[1]}/mobility={mob}", "every documented option combination runs on every supported grid", exception=repr(res.exc)[:300], stage=res.stage, cfg=tagc)
            continue
        if ref is None:
            ref = Wh.Ref(res.grid)
        check_run(r, res, ref, m1, m2, method, l1, form, weight, o, tagc)
        sec = res.second
        if sec is not None:
            tag2 = dict(tagc, call="second call on the same object (reversed pair, twice the mass)")
            if sec.exc is not None:
                r.fail(f"C04/usable/{mname(method)}/{form[0]}-{form[1]}/reused-object", "a solver object can be used for a second pair", exception=repr(sec.exc)[:300], cfg=tag2)
            else:
                check_run(r, sec, ref, n1, n2, method, l1, form, weight, o, tag2)
                r.count("solver_runs")
                # ... and it must be the result a fresh solver object gives for that pair (a
                # flux "for this pair" cannot depend on the pair computed before)
                fresh = Wh.run_solver(mname(method), shape, vs, n1, n2, o, weight=weight)
                if fresh.exc is None and np.all(np.isfinite(fresh.flux)) and np.all(np.isfinite(sec.flux)):
                    tolr = 0.0 if form[1] == "direct" else 1e-9
                    sc = max(1.0, float(np.max(np.abs(fresh.flux))))
                    same = abs(sec.distance - fresh.distance) <= tolr * max(1.0, abs(fresh.distance)) and float(np.max(np.abs(sec.flux - fresh.flux))) <= tolr * sc
                    r.check(same, f"C04/reused-object-equals-fresh/{mname(method)}/{form[0]}-{form[1]}", "the second computation on a solver object returns what a fresh object returns for that pair", d_reused=sec.distance, d_fresh=fresh.distance, cfg=tag2)
                    r.count("solver_runs")
        if np.any(res.flux != 0):
            r.nontriv(tagc)
        r.outcome((tagc, round(float(res.distance), 9)))
        r.count("solver_runs")


def run_fault(case, r):
    shape, vsk, mk, method, form, aa = tuple(case["shape"]), case["vs"], case["mass"], case["method"], tuple(case["form"]), case["aa"]
    dim = len(shape)
    vs = Wh.voxel_sizes(dim, vsk)
    m1, m2 = Wh.mass_pairs(shape, mk)
    l1, mob = "RAVIART_THOMAS", "CELL_BASED"
    ref = None
    states = set()
    transitions = 0
    for num_iter in case["num_iters"]:
        for tolname, tols in (("default", {}), ("tight", {"tol_residual": 1e-10, "tol_increment": 1e-10, "tol_distance": 1e-10}), ("unreachable", {"tol_residual": 0.0, "tol_increment": 0.0, "tol_distance": 0.0})):
            o = opts_for(method, l1, mob, form, aa, num_iter, tols)
            tagc = {"shape": shape, "mass": mk, "method": method, "form": form, "aa": aa, "num_iter": num_iter, "tol": tolname}
            executions = []

            def run(sched, o=o):
                return Wh.run_solver(mname(method), shape, vs, m1, m2, o, sched=sched)

            def on_exec(choices, arity, res, executions=executions):
                executions.append((choices, res))

            stats = fault.explore(run, 2, on_exec)
            transitions += stats["executions"]
            base = executions[0][1]
            if base.exc is not None:
                r.fail(f"C04/usable/{mname(method)}/{form[0]}-{form[1]}/fault-free", "the fault-free run completes", exception=repr(base.exc)[:300], cfg=tagc)
                continue
            if ref is None:
                ref = Wh.Ref(base.grid)
            K = base.loop_calls
            # the tree must contain exactly one execution per in-loop solve, plus the fault-free one
            NK = len(Wh.FAULT_KINDS)
            r.check(stats["executions"] == NK * K + 1 and stats["by_deviations"].get(2, 0) == 0, f"C04/fault-tree/{mname(method)}", "fault tree = fault-free run + one execution per (in-loop linear solve, kind of failure); no second deviation is reachable (the loop ends at the first failure)", executions=stats["executions"], loop_calls=K, kinds=NK, by_deviations=stats["by_deviations"])
            conv = check_run(r, base, ref, m1, m2, method, l1, form, None, o, tagc)
            if tolname == "unreachable":
                r.check(conv is False, f"C04/status/unreachable-tolerance/{mname(method)}", "with stopping criteria that cannot be met the run is not reported converged", cfg=tagc)
            # return_status returns info['converged']
            o2 = dict(o)
            o2["return_info"] = False
            o2["return_status"] = True
            rs = Wh.run_solver(mname(method), shape, vs, m1, m2, o2)
            r.check(rs.exc is None and rs.status == base.info["converged"] and rs.distance == base.distance, f"C04/status/return_status/{mname(method)}", "return_status yields (distance, info['converged']) of the same computation", cfg=tagc)
            states.add((num_iter, tolname, ()))
            # two-call histories on ONE solver object: a fault-free first computation, then the
            # reversed pair with the k-th in-loop solve failing -- the status of the second
            # computation is its own, whatever the first one reported
            if tolname != "unreachable":
                for k in range(1, K + 1):
                    two = Wh.run_solver(mname(method), shape, vs, m1, m2, o, then=(m2, m1), then_fault_at=k)
                    transitions += 2
                    states.add((num_iter, tolname, ("then", k)))
                    sec = two.second
                    if two.exc is not None or sec is None or sec.exc is not None:
                        r.fail(f"C04/fault/{mname(method)}/no-exception-escapes", "a failing inner step of a second computation on the same object does not raise out of the distance computation", exception=repr(two.exc if two.exc is not None else getattr(sec, "exc", None))[:300], cfg=dict(tagc, second_call_failed_iteration=k - 1))
                        continue
                    if sec.faulted_at is None:
                        continue  # the second computation stopped before its k-th solve
                    r.check(sec.info["converged"] is False, f"C04/fault/{mname(method)}/flagged-non-converged/reused-object", "a computation whose inner step failed is flagged non-converged also when an earlier computation on the same object converged", first_converged=two.info["converged"], cfg=dict(tagc, second_call_failed_iteration=k - 1))
            for choices, res in executions[1:]:
                k = res.faulted_at  # 1-based in-loop call = iteration k-1 failed
                sched_tag = dict(tagc, failed_iteration=k - 1, failure=res.fault_kind)
                states.add((num_iter, tolname, tuple(choices)))
                cell = f"C04/fault/{mname(method)}"
                if res.exc is not None:
                    r.fail(cell + "/no-exception-escapes", "a failing inner step does not raise out of the distance computation", exception=repr(res.exc)[:300], cfg=sched_tag)
                    continue
                r.check(res.info["converged"] is False, cell + "/flagged-non-converged", "a run whose inner step failed is flagged non-converged", cfg=sched_tag)
                check_run(r, res, ref, m1, m2, method, l1, form, None, o, sched_tag)
                # last valid iterate: the state after the k-1 completed iterations
                if k == 1:
                    want_flux = base.initial_solution[: ref.nf] if base.initial_solution is not None else None
                    okf = want_flux is not None and np.array_equal(res.flux, want_flux)
                    r.check(okf, cell + "/last-valid-iterate", "after a failure in the first iteration the result describes the initial iterate", cfg=sched_tag)
                else:
                    o3 = dict(o)
                    o3["num_iter"] = k - 1
                    prev = Wh.run_solver(mname(method), shape, vs, m1, m2, o3)
                    transitions += 1
                    ok = prev.exc is None and np.array_equal(prev.flux, res.flux) and prev.distance == res.distance
                    if ok and mname(method) == "bregman":
                        ok = np.allclose(prev.pressure, res.pressure, rtol=1e-9, atol=1e-12)
                    elif ok:
                        ok = np.array_equal(prev.pressure, res.pressure)
                    r.check(ok, cell + "/last-valid-iterate", "after a failure at iteration k the result equals the result of the run limited to the k completed iterations", cfg=sched_tag, dist=res.distance, dist_prev=None if prev.exc is not None else prev.distance)
                r.nontriv(sched_tag)
                # replay determinism of the schedule (first and last schedule of the tree)
                if choices not in (executions[1][0], executions[-1][0]):
                    continue
                again = Wh.run_solver(mname(method), shape, vs, m1, m2, o, sched=fault.Scheduler(choices))
                r.check(again.exc is None and np.array_equal(again.flux, res.flux) and again.distance == res.distance, cell + "/replay-deterministic", "replaying the recorded fault schedule reproduces the identical observation", cfg=sched_tag)
            r.outcome((tagc, [round(float(e[1].distance), 9) if e[1].exc is None else "exc" for e in executions]))
    r.count("states", len(states))
    r.count("transitions", transitions)
    r.count("traces", transitions)
    r.notes.setdefault("samples", [{"base": case, "fault_schedule_example": [0, 1], "meaning": "second in-loop linear solve raises"}])


def run_tiny(case, r):
    shape, mk = tuple(case["shape"]), case["mass"]
    dim = len(shape)
    vs = Wh.voxel_sizes(dim, "aniso")
    a, b = Wh.mass_pairs(shape, mk)
    al = 2.0**-30
    for method, backend in itertools.product(("newton", "bregman"), ("cg", "amg", "direct")):
        o = {"l1_mode": "RAVIART_THOMAS", "mobility_mode": "CELL_BASED", "formulation": "pressure", "linear_solver": backend, "num_iter": 6}
        if method == "bregman":
            o["L"] = al  # the penalty parameter scales with the flux
        res = Wh.run_solver(method, shape, vs, al * a, al * b, o)
        tagc = {"shape": shape, "mass": mk, "method": method, "backend": backend, "scale": "2^-30", "linear_solver_options": "library defaults"}
        if res.exc is not None:
            r.fail(f"C04/usable/{method}/pressure-{backend}/tiny-default", "runs with default solver options on tiny masses", exception=repr(res.exc)[:300], cfg=tagc)
            continue
        ref = Wh.Ref(res.grid)
        diff = ref.vol * ref.flat(al * (b - a))
        mscale = float(np.max(np.abs(diff)))
        mb = float(np.max(np.abs(ref.divergence(res.flux) - diff)))
        tol = 1e-9 if backend == "direct" else 1e-4  # default iterative tolerances are 1e-6 relative
        r.check(np.all(np.isfinite(res.flux)) and mb <= tol * mscale, f"C04/mass-balance/{method}/pressure-{backend}/tiny-default", "mass balance holds relative to the magnitude of the masses, also for tiny masses and default solver tolerances", error=mb, mass_scale=mscale, cfg=tagc)
        cost = ref.cost(res.flux, "RAVIART_THOMAS")
        r.check(abs(res.distance - cost) <= 1e-10 * max(abs(cost), 1e-300), f"C04/distance-is-cost-of-flux/{method}/tiny-default", "the reported distance is the cost of the returned flux", distance=res.distance, cost=cost, cfg=tagc)
        r.check(res.distance > 0, f"C04/mass-balance/{method}/pressure-{backend}/tiny-default", "a non-trivial transport has a positive distance", distance=res.distance, cfg=tagc)
        r.nontriv(tagc)
        r.count("solver_runs")
        r.count("transitions")
        r.count("traces")
        r.outcome((tagc, float(res.distance) / al))


def run_status_ladder(case, r):
    shape, mk, method, scale = tuple(case["shape"]), case["mass"], case["method"], case["scale"]
    dim = len(shape)
    vs = Wh.voxel_sizes(dim, "unit")
    m1, m2 = Wh.mass_pairs(shape, mk)
    m1, m2 = scale * m1, scale * m2
    ref = None
    stops = set()
    plain = {}
    for crit, verbose in [(c, v) for c in ("tol_distance", "tol_increment", "tol_residual") for v in (False, True)]:
        for k in range(0, 31, 2):
            tols = {crit: 2.0**-k}
            o = opts_for(method, "RAVIART_THOMAS", "CELL_BASED", ("full", "direct"), 0, 25, tols)
            if mname(method) == "bregman":
                o["L"] = scale  # the penalty scales with the flux
            if verbose:
                o["verbose"] = True  # progress printing must not take part in the computation
            tagc = {"shape": shape, "mass": mk, "scale": scale, "method": method, "criterion": crit, "tolerance": f"2^-{k}", "verbose": verbose}
            res = Wh.run_solver(mname(method), shape, vs, m1, m2, o)
            if res.exc is not None:
                r.fail(f"C04/usable/{mname(method)}/full-direct/status-ladder", "the run completes", exception=repr(res.exc)[:300], cfg=tagc)
                continue
            if ref is None:
                ref = Wh.Ref(res.grid)
            conv = check_run(r, res, ref, m1, m2, method, "RAVIART_THOMAS", ("full", "direct"), None, o, tagc)
            n_it = len(res.info["convergence_history"]["distance"])
            stops.add((crit, conv, n_it))
            if not verbose:
                plain[(crit, k)] = (res.distance, n_it, conv)
                # the reduced formulations solve the same systems: the recorded convergence history (and so
                # the stopping iteration) is that of the full formulation
                if mname(method) == "newton" and k % 4 == 0:
                    for form2 in (("pressure", "direct"), ("flux_reduced", "direct")):
                        o2 = dict(o, formulation=form2[0], linear_solver=form2[1])
                        res2 = Wh.run_solver(mname(method), shape, vs, m1, m2, o2)
                        if res2.exc is not None:
                            continue
                        h1, h2 = res.info["convergence_history"], res2.info["convergence_history"]
                        # residuals that have reached rounding level (1e-9 of the first one) carry no information:
                        # whether such a number is below a tolerance is luck, and so is the iteration the run stops
                        # at afterwards.  Compared: the significant part of the history; stop and status only if
                        # the run stopped while its residual was still significant
                        s1 = [x for x in h1["residual"] if x > 1e-9 * h1["residual"][0]]
                        s2 = [x for x in h2["residual"] if x > 1e-9 * h2["residual"][0]]
                        same_hist = len(s1) == len(s2) and np.allclose(s1, s2, rtol=1e-6, atol=0.0)
                        if len(s1) == len(h1["residual"]) and len(s2) == len(h2["residual"]):
                            same_hist = same_hist and len(h1["residual"]) == len(h2["residual"]) and bool(res2.info["converged"]) == conv
                        r.check(same_hist, f"C04/status/history-across-formulations/{form2[0]}", "the recorded residual history (down to rounding level), and the stopping iteration and status of runs that stop above it, do not depend on the formulation of the linear systems", full=[float(x) for x in h1["residual"]], reduced=[float(x) for x in h2["residual"]], cfg=tagc)
            else:
                r.check(plain.get((crit, k)) == (res.distance, n_it, conv), f"C04/status/verbose-is-passive/{mname(method)}", "printing progress does not change the computation (distance, iteration count, status)", plain=plain.get((crit, k)), verbose=(res.distance, n_it, conv), cfg=tagc)
            r.nontriv((tagc["criterion"], k, scale, mk, method, verbose))
    r.outcome((case["shape"], mk, method, scale, sorted(stops)))
    r.count("states", len(stops))
    r.count("transitions", 6 * 16)
    r.count("traces", 6 * 16)


def run_image_dtype(case, r):
    shape, mk, method = tuple(case["shape"]), case["mass"], case["method"]
    dim = len(shape)
    vs = Wh.voxel_sizes(dim, "aniso")
    m1, m2 = Wh.mass_pairs(shape, mk)  # integer-valued masses
    ref = None
    for form in FORMS:
        o = opts_for(method, "RAVIART_THOMAS", "CELL_BASED", form, 0, 6)
        base = Wh.run_solver(mname(method), shape, vs, m1, m2, o)
        if base.exc is not None:
            continue  # reported by the option lattice
        if ref is None:
            ref = Wh.Ref(base.grid)
        for dt in ("float32", "int64", "int32", "uint16", "uint8"):
            tagc = {"shape": shape, "mass": mk, "method": method, "form": form, "image_dtype": dt}
            res = Wh.run_solver(mname(method), shape, vs, m1, m2, o, img_dtype=dt)
            cell = f"C04/image-dtype/{mname(method)}/{'unsigned' if dt.startswith('u') else ('integer' if dt.startswith('i') else 'float32')}"
            if res.exc is not None:
                r.fail(cell, "mass images of any numeric storage type are accepted", exception=repr(res.exc)[:300], cfg=tagc)
                continue
            check_run(r, res, ref, m1, m2, method, "RAVIART_THOMAS", form, None, o, dict(tagc))
            r.check(abs(res.distance - base.distance) <= 1e-12 * max(1.0, abs(base.distance)) and np.allclose(res.flux, base.flux, rtol=1e-10, atol=1e-12), cell, "the same masses stored with another dtype give the same flux and distance", distance=res.distance, distance_float64=base.distance, cfg=tagc)
            r.nontriv((shape, mk, method, form, dt))
    r.outcome((case["shape"], mk, method))


def run_case(case, r):
    if case["kind"] == "image-dtype":
        return run_image_dtype(case, r)
    if case["kind"] == "tiny-default":
        return run_tiny(case, r)
    if case["kind"] == "status-ladder":
        return run_status_ladder(case, r)
    if case["kind"] == "options":
        run_options(case, r)
    else:
        run_fault(case, r)
