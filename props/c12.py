"""C12 — colour balancing recovers exact colour maps and composes correctly (E-lattice).

Three kinds of cases, all on the real classes of ``darsia.corrections.color``:

* ``single``  one ``find_balance`` of White/Color/Affine/AdaptiveBalance (every mode) on
  destination swatches ``dst = src @ A + b`` for an explicit table of ground-truth maps:
  exact-map recovery whenever the balance class contains the map, residual monotonicity for
  *every* (class, map) pair, from the identity and from a prescribed non-identity balance,
  through ``find_balance + apply_balance``, ``__call__`` and the module-level shortcuts.
* ``staged``  every ordered pair and triple of AdaptiveBalance stages, all stages aiming at the
  same destination or every stage at a different one (``targets = moving``; this is what keeps
  the later stages away from the identity, so that a wrong composition is visible).  After
  every stage the accumulated ``balance_scaling`` / ``balance_translation`` must be the
  row-vector composition (the convention of ``apply_balance``: ``x @ A + b``) of the previous
  balance with the stage balance, the stage balance being re-fitted independently (plain
  White/Color/AffineBalance on the pre-balanced swatches); applying the accumulated balance
  must equal applying the stage balances one after the other; the residual must not grow; and
  a sequence one of whose stages is general enough to absorb the whole remaining map must
  reproduce the (last) destination.
* ``correction``  ``ColorCorrection.correct_array`` (white balance on the last swatch row,
  then linear/affine balance on the other rows) on a synthetic colour-checker image.

The reference model is closed-form linear algebra: ground truth by construction, the
composition rule ``(x @ A1 + b1) @ A2 + b2``, and a least-squares fit (``numpy.linalg.lstsq``)
used only to state what the best possible residual is.
"""

from __future__ import annotations

import itertools

import numpy as np

ID = "C12"
LEVEL = "exploration"
EXHAUSTIVE = True
RULE = (
    "single: swatch sets x forms {4x6x3, 24x3, 6x3, 4x6x3 stored column-major, 3x3} x ground-truth maps (identity, diagonals, I+eps*M linear, affine, one non-affine) x balance "
    "{White, Color, Affine, Adaptive:diagonal|linear|affine} x start {identity, prescribed non-identity} x entry {find+apply, __call__, "
    "shortcut function}; staged: (swatch set, form) x maps x targets {same destination for all stages, a different map per stage} x EVERY "
    "ordered pair and triple of {diagonal, linear, affine}; correction: "
    "reference checkers x maps x whitebalancing {on, off} x colorbalancing {affine, linear} x image dtype. Complete product, no sampling. "
    "Non-trivial = ground truth is not the identity (the optimiser has to leave its start); distinct = distinct case descriptor."
)
ASSUMPTIONS = [
    "swatch sets have condition number < 30 (asserted per case), maps are within 0.5 of the identity",
    "exact-map recovery is demanded at 1e-6 (the Powell tolerance configured in the code); composition at 1e-12 (3x3 algebra) / 1e-9 (applied)",
    "ColorCorrection recovery is demanded at 2e-4: swatch extraction from the synthetic image is only float32-accurate (asserted <= 5e-5 per case)",
    "scipy's Powell minimiser is deterministic: an independent re-fit of a stage on identical inputs reproduces the stage balance",
]

TOL_RECOVER = 1e-6
TOL_MONO = 1e-12
TOL_ALGEBRA = 1e-12
TOL_APPLY = 1e-9
TOL_EXTRACT = 5e-5
TOL_CC = 2e-4

MODES = ("diagonal", "linear", "affine")
LEVELS = {"identity": 0, "diagonal": 1, "linear": 2, "affine": 3, "nonaffine": 4}
STAGE_CLASS = {"diagonal": "WhiteBalance", "linear": "ColorBalance", "affine": "AffineBalance"}
BALANCES = {  # name -> (class name, adaptive mode or None, level)
    "White": ("WhiteBalance", None, 1),
    "Color": ("ColorBalance", None, 2),
    "Affine": ("AffineBalance", None, 3),
    "Adaptive:diagonal": ("AdaptiveBalance", "diagonal", 1),
    "Adaptive:linear": ("AdaptiveBalance", "linear", 2),
    "Adaptive:affine": ("AdaptiveBalance", "affine", 3),
}
SHORTCUT = {"White": "white_balance", "Color": "color_balance", "Affine": "affine_balance"}

# ------------------------------------------------------------------ explicit input tables
_M = {
    "sym": [[0, 1, -1], [1, 0, 1], [-1, 1, 0]],
    "gen": [[0.5, 1, 0], [0, -0.5, 0.5], [1, 0, -0.5]],
    "shear": [[0, 1, 1], [0, 0, 1], [0, 0, 0]],
    "skew": [[0, 1, -1], [-1, 0, 1], [1, -1, 0]],
}
_B = {"b1": [0.05, -0.025, 0.1], "b2": [-0.0625, 0.03125, 0.0], "b3": [0.1, 0.1, 0.1], "bf": [2.0**-10, -(2.0**-10), 2.0**-11]}
_D = {"d1": [1.125, 0.875, 1.25], "d2": [0.75, 1.25, 0.875], "uni": [1.5, 1.5, 1.5], "d4": [0.9, 1.1, 1.05], "faint": [1.0 + 2.0**-9, 1.0 - 2.0**-9, 1.0]}

# name -> (class, diagonal | None, (matrix name, eps) | None, translation | None)
TRUTHS = {
    "identity": ("identity", None, None, None),
    "diag:d1": ("diagonal", "d1", None, None),
    "diag:d2": ("diagonal", "d2", None, None),
    "diag:uni": ("diagonal", "uni", None, None),
    "diag:d4": ("diagonal", "d4", None, None),
    "lin:sym": ("linear", None, ("sym", 0.1), None),
    "lin:gen": ("linear", None, ("gen", 0.1), None),
    "lin:shear": ("linear", None, ("shear", 0.1), None),
    "lin:skew": ("linear", None, ("skew", 0.1), None),
    "aff:shift": ("affine", None, None, "b1"),
    "aff:d1+b2": ("affine", "d1", None, "b2"),
    "aff:gen+b1": ("affine", None, ("gen", 0.1), "b1"),
    "aff:shear+b3": ("affine", None, ("shear", 0.1), "b3"),
    # faint casts (a few 1e-3 away from the identity: below one 8-bit grey level on most swatches)
    "lin:faint": ("linear", None, ("gen", 2.0**-9), None),
    "aff:faint": ("affine", "faint", ("skew", 2.0**-10), "bf"),
    # not representable by any balance: affine map plus a channel-wise quadratic 0.25*(x^2-x); no recovery is demanded, only
    # monotonicity and composition (every stage of a staged fit then stays away from the identity)
    "quad:gen+b1": ("nonaffine", None, ("gen", 0.1), "b1"),
    # thorough only
    "diag:far": ("diagonal", None, None, None),
    "lin:gen2": ("linear", None, ("gen", 0.2), None),
    "lin:skew2": ("linear", None, ("skew", 0.2), None),
    "lin:d2*sym": ("linear", "d2", ("sym", 0.1), None),
    "aff:skew+b2": ("affine", None, ("skew", 0.1), "b2"),
    "aff:sym2+b1": ("affine", None, ("sym", 0.2), "b1"),
}
QUICK_TRUTHS = [t for t in TRUTHS if t not in ("diag:far", "lin:gen2", "lin:skew2", "lin:d2*sym", "aff:skew+b2", "aff:sym2+b1")]
CC_TRUTHS_QUICK = ["identity", "diag:d1", "lin:gen", "lin:skew", "aff:shift", "aff:gen+b1", "aff:shear+b3", "quad:gen+b1"]
# destinations of the later stages of a staged fit with "moving" targets: stage k aims at RING[(i + 5k) mod 12]
RING = [t for t in QUICK_TRUTHS if TRUTHS[t][0] not in ("identity", "nonaffine")]

# classic colour checker (x-rite, after 2014) in 1/256 units, row by row; last row = greys
_CLASSIC = [
    [[118, 79, 65], [201, 144, 127], [83, 121, 156], [95, 108, 65], [126, 129, 175], [93, 189, 173]],
    [[230, 124, 49], [46, 92, 167], [201, 81, 95], [90, 59, 104], [165, 187, 61], [235, 161, 41]],
    [[0, 64, 145], [70, 147, 72], [182, 54, 56], [246, 199, 23], [191, 81, 146], [0, 134, 166]],
    [[243, 242, 236], [202, 203, 202], [162, 164, 163], [121, 121, 121], [83, 84, 85], [50, 50, 51]],
]

SETS = ("f0", "f1", "classic")
FORMS = ("4x6x3", "24x3", "6x3")
# further forms of the single-balance lattice: the grid stored column-major (a transposed view / Fortran-
# ordered reader) and a flat list of exactly three swatches (enough for diagonal and linear maps)
EXTRA_FORMS = ("4x6x3-F", "3x3", "4x3")

# start balances for "start = given" (what a previous, unrelated fit could have left behind)
START_A = {1: np.diag([1.5, 0.5, 1.25]), 2: np.eye(3) + 0.125 * np.array(_M["gen"]).T, 3: np.eye(3) + 0.125 * np.array(_M["gen"]).T}
START_B = np.array([0.125, -0.125, 0.0625])


def truth_map(name):
    cls, d, m, b = TRUTHS[name]
    A = np.eye(3)
    if name == "diag:far":
        A = np.diag([0.5, 1.5, 1.0])
    if d is not None:
        A = np.diag(np.array(_D[d], dtype=float))
    if m is not None:
        A = A @ (np.eye(3) + m[1] * np.array(_M[m[0]], dtype=float))
    t = np.zeros(3) if b is None else np.array(_B[b], dtype=float)
    return cls, A, t


def apply_truth(name, x):
    """Destination swatches of the ground-truth map ``name`` for source colours x (double precision)."""
    cls, A, t = truth_map(name)
    x = np.asarray(x, dtype=float)
    y = x @ A + t
    if cls == "nonaffine":
        y = y + 0.25 * (x * x - x)
    return y


def stage_truths(name, n, targets):
    """Ground truth aimed at by each of the n stages."""
    if targets == "same":
        return [name] * n
    i = list(TRUTHS).index(name)
    return [name] + [RING[(i + 5 * k) % len(RING)] for k in range(1, n)]


def swatch_set(name):
    """Deterministic 4x6x3 swatch sets with values in [0, 1]."""
    if name == "classic":
        return np.array(_CLASSIC, dtype=float) / 256.0
    k = {"f0": 0, "f1": 1}[name]
    out = np.zeros((4, 6, 3))
    for i in range(4):
        for j in range(6):
            n = i * 6 + j
            for c in range(3):
                out[i, j, c] = ((7 * n + 11 * c * (k + 1) + 3 * n * n * (c + 1) + 5 * k) % 32 + 4) / 40.0
    return out


def shaped(S, form):
    if form == "4x6x3":
        return S.copy()
    if form == "24x3":
        return S.reshape(-1, 3).copy()
    if form == "6x3":
        return S[0].copy()
    if form == "4x6x3-F":
        return np.asfortranarray(S.copy())
    if form == "4x3":
        # exactly four swatches in general position: the least an affine map needs
        flat = S.reshape(-1, 3)
        for quad in itertools.combinations(range(len(flat)), 4):
            if np.linalg.cond(np.hstack([flat[list(quad)], np.ones((4, 1))])) < 25:
                return flat[list(quad)].copy()
        raise ValueError("no well-conditioned swatch quadruple")
    if form == "3x3":
        flat = S.reshape(-1, 3)
        for trip in itertools.combinations(range(len(flat)), 3):
            if np.linalg.cond(flat[list(trip)]) < 8:
                return flat[list(trip)].copy()
        raise ValueError("no well-conditioned swatch triple")
    raise ValueError(form)


def seq_class(seq):
    """A-priori class of a stage sequence (which composition rules it exercises)."""
    if all(m == "diagonal" for m in seq):
        return "all-diagonal"  # stage matrices commute, no translation
    if any(m == "affine" for m in seq[:-1]):
        return "translation-carried"  # a translation has to be pushed through a later stage
    return "mixed-linear"  # non-commuting matrices, translation (if any) only added last


def recovering(seq, names):
    """Is the destination of the last stage reproduced exactly?  Yes iff, since that destination was set, some
    stage contains the whole remaining map (truth o previous stages^-1): its mode is at least as general as the
    truth and as every earlier stage.  Later stages then start from a zero residual and stay there."""
    k0 = len(seq) - 1
    while k0 > 0 and names[k0 - 1] == names[-1]:
        k0 -= 1
    tl = LEVELS[TRUTHS[names[-1]][0]]
    lv = max([LEVELS[m] for m in seq[:k0]], default=0)
    for m in seq[k0:]:
        if LEVELS[m] >= max(tl, lv):
            return True
        lv = max(lv, LEVELS[m])
    return False


# ------------------------------------------------------------------------------ enumeration
def _axes(tier):
    if tier == "quick":
        return {
            "single": {"sets": SETS, "forms": FORMS, "truths": QUICK_TRUTHS, "dtypes": ("float64",)},
            "staged": {"same": [("f0", "24x3"), ("classic", "4x6x3")], "moving": [("f0", "4x6x3"), ("classic", "24x3")], "truths": QUICK_TRUTHS},
            "correction": {"refs": ("f0", "default"), "truths": CC_TRUTHS_QUICK, "dtypes": ("float64",)},
        }
    return {
        "single": {"sets": SETS, "forms": FORMS, "truths": list(TRUTHS), "dtypes": ("float64", "float32")},
        "staged": {"same": [(s, f) for s in SETS for f in FORMS], "moving": [(s, f) for s in SETS for f in FORMS], "truths": list(TRUTHS)},
        "correction": {"refs": ("f0", "f1", "classic", "default"), "truths": QUICK_TRUTHS, "dtypes": ("float64", "float32", "uint8")},
    }


def describe(tier):
    ax = _axes(tier)
    seqs = [list(s) for n in (2, 3) for s in itertools.product(MODES, repeat=n)]
    return {
        "single": {**{k: list(v) for k, v in ax["single"].items()}, "balances": list(BALANCES), "starts": ["identity", "given"], "entries": ["find+apply", "call", "shortcut"]},
        "staged": {
            "truths": list(ax["staged"]["truths"]),
            "targets=same (every stage aims at the same destination): (set, form)": [list(x) for x in ax["staged"]["same"]],
            "targets=moving (stage k aims at RING[(i+5k) mod 12]): (set, form)": [list(x) for x in ax["staged"]["moving"]],
            "sequences": len(seqs), "stage_modes": list(MODES), "lengths": [2, 3], "ring": RING,
        },
        "correction": {**{k: list(v) for k, v in ax["correction"].items()}, "whitebalancing": [True, False], "colorbalancing": ["affine", "linear"]},
        "truth_maps": {t: {"class": truth_map(t)[0], "A": truth_map(t)[1].tolist(), "b": truth_map(t)[2].tolist()} for t in ax["staged"]["truths"]},
        "tolerances": {"recover": TOL_RECOVER, "monotone": TOL_MONO, "algebra": TOL_ALGEBRA, "applied": TOL_APPLY, "correction": TOL_CC},
    }


def cases(tier):
    ax = _axes(tier)
    out = []
    a = ax["single"]
    for s, f, t, dt in itertools.product(a["sets"], a["forms"], a["truths"], a["dtypes"]):
        for bal in BALANCES:
            for start, entry in (("identity", "find+apply"), ("given", "find+apply"), ("identity", "call"), ("identity", "shortcut")):
                if entry == "shortcut" and bal not in SHORTCUT:
                    continue
                if start == "given" and bal.startswith("Adaptive"):
                    continue  # non-identity starts of the adaptive balance are the staged cases
                if entry == "call" and bal in ("Adaptive:diagonal", "Adaptive:linear"):
                    continue  # __call__ of the adaptive balance has no mode argument: it is the affine stage
                out.append({"kind": "single", "set": s, "form": f, "truth": t, "dtype": dt, "balance": bal, "start": start, "entry": entry})
    for s, f, t in itertools.product(a["sets"], EXTRA_FORMS, a["truths"]):
        for bal in BALANCES:
            level = BALANCES[bal][2]
            if f == "3x3" and (level == 3 or truth_map(t)[0] not in ("identity", "diagonal", "linear")):
                continue  # three swatches determine a linear map, not an affine one
            for start, entry in (("identity", "find+apply"), ("identity", "call")):
                if entry == "call" and bal in ("Adaptive:diagonal", "Adaptive:linear"):
                    continue
                out.append({"kind": "single", "set": s, "form": f, "truth": t, "dtype": "float64", "balance": bal, "start": start, "entry": entry})
    a = ax["staged"]
    for n in (2, 3):
        for targets in ("same", "moving"):
            for (s, f), t in itertools.product(a[targets], a["truths"]):
                for seq in itertools.product(MODES, repeat=n):
                    out.append({"kind": "staged", "set": s, "form": f, "truth": t, "targets": targets, "seq": list(seq)})
    a = ax["correction"]
    for ref, t, dt in itertools.product(a["refs"], a["truths"], a["dtypes"]):
        for wb in (True, False):
            for cb in ("affine", "linear"):
                out.append({"kind": "correction", "ref": ref, "truth": t, "dtype": dt, "wb": wb, "cb": cb})
    order = {"single": 0, "staged": 1, "correction": 2}
    out.sort(key=lambda c: (order[c["kind"]], len(c.get("seq", [])), LEVELS[TRUTHS[c["truth"]][0]]))
    return out


def crash_cell(case, exc, where):
    sub = case.get("balance") or ("-".join(case["seq"]) if "seq" in case else f"wb={int(case['wb'])}/cb={case['cb']}")
    return f"C12/crash/{case['kind']}/{sub}/{type(exc).__name__}@{where}"


# ------------------------------------------------------------------------------- references
def _res(x, dst):
    return float(np.sum((np.asarray(x, dtype=float) - dst) ** 2))


def _best_residual(level, s, d):
    """Smallest achievable residual for a balance of the given level (closed form)."""
    s2, d2 = s.reshape(-1, 3).astype(float), d.reshape(-1, 3).astype(float)
    if level == 1:
        A = np.diag([(s2[:, c] @ d2[:, c]) / (s2[:, c] @ s2[:, c]) for c in range(3)])
        return _res(s2 @ A, d2)
    X = s2 if level == 2 else np.hstack([s2, np.ones((len(s2), 1))])
    W = np.linalg.lstsq(X, d2, rcond=None)[0]
    return _res(X @ W, d2)


def _state(bal):
    A = np.array(bal.balance_scaling, dtype=float)
    b = np.array(getattr(bal, "balance_translation", np.zeros(3)), dtype=float)
    return A, b


PROBE = np.array([[0.0, 0, 0], [1, 0, 0], [0, 1, 0], [0, 0, 1], [1, 1, 1], [0.25, 0.5, 0.75]])


# --------------------------------------------------------------------------------- run_case
def run_case(case, r):
    kind = case["kind"]
    if case["truth"] != "identity":
        r.nontriv(case)
    if kind == "single":
        _run_single(case, r)
    elif kind == "staged":
        _run_staged(case, r)
    else:
        _run_correction(case, r)


def _inputs(case):
    S = swatch_set(case["set"])
    src = shaped(S, case["form"])
    flat = src.reshape(-1, 3)
    cond = np.linalg.cond(np.hstack([flat, np.ones((len(flat), 1))])) if len(flat) > 3 else np.linalg.cond(flat)
    assert cond < 30, f"swatch set not well conditioned: {cond}"
    tcls, A, b = truth_map(case["truth"])
    if case.get("dtype", "float64") == "float32":
        src = src.astype(np.float32)
    dst = apply_truth(case["truth"], src)  # exact map of the values the code sees, in double precision
    return src, dst, tcls, A, b


def _run_single(case, r):
    import darsia

    src, dst, tcls, A, b = _inputs(case)
    src0, dst0 = src.copy(), dst.copy()
    name = case["balance"]
    clsname, mode, level = BALANCES[name]
    grid = {"4x6x3": "grid", "4x6x3-F": "grid-column-major", "3x3": "flat-3", "4x3": "flat-4"}.get(case["form"], "flat")
    tag = f"{name}/truth={tcls}/{grid}/start={case['start']}"
    kw = {} if mode is None else {"mode": mode}

    bal = getattr(darsia, clsname)()
    A0, b0 = _state(bal)
    r.check(np.array_equal(A0, np.eye(3)) and np.array_equal(b0, np.zeros(3)), f"C12/initial/{clsname}", "a new balance is the identity", A=A0, b=b0)
    if case["start"] == "given":
        bal.balance_scaling = START_A[level].copy()
        if level == 3:
            bal.balance_translation = START_B.copy()
    before = _res(bal.apply_balance(src), dst)

    entry = case["entry"]
    if entry == "find+apply":
        bal.find_balance(src, dst, **kw)
        out = bal.apply_balance(src)
    elif entry == "call":
        out = bal(src, src, dst)
    else:
        out = getattr(darsia, SHORTCUT[name])(src, src, dst)
    out = np.asarray(out, dtype=float)

    r.check(out.shape == dst.shape, f"C12/shape/{name}/{grid}", "balanced swatches have the shape of the input", got=list(out.shape), want=list(dst.shape))
    if out.shape != dst.shape:
        return
    after = _res(out, dst)
    err = float(np.abs(out - dst).max())
    if entry != "find+apply":
        # the other entries are the same fit: compare with find_balance + apply_balance on a fresh object
        ref = getattr(darsia, clsname)()
        ref.find_balance(src, dst)
        want = np.asarray(ref.apply_balance(src), dtype=float)
        r.check(np.array_equal(out, want), f"C12/entry/{entry}/{clsname}", "__call__ / shortcut function = find_balance followed by apply_balance", maxdiff=float(np.abs(out - want).max()))
    if entry != "shortcut":
        As, bs = _state(bal)
        # apply_balance is the row-vector map x @ A + b of the stored balance, for any array of colours
        want = PROBE @ As + bs
        got = np.asarray(bal.apply_balance(PROBE.copy()), dtype=float)
        r.check(got.shape == want.shape and np.abs(got - want).max() <= 1e-14, f"C12/apply/{clsname}", "apply_balance(x) = x @ balance_scaling + balance_translation", got=got, want=want)
        if level == 1:
            r.check(np.array_equal(As, np.diag(np.diag(As))), f"C12/structure/{name}", "a diagonal balance stays diagonal", A=As)
        if level <= 2:
            r.check(np.array_equal(bs, np.zeros(3)), f"C12/structure/{name}", "a linear balance has no translation", b=bs)

    # --- monotonicity: for every destination, exact or not
    r.check(after <= before + TOL_MONO, f"C12/monotone/{name}/{grid}/start={case['start']}", "fitting never increases the swatch residual relative to the balance it started from", before=before, after=after)
    # --- exact-map recovery when the class contains the map
    if level >= LEVELS[tcls]:
        r.check(err <= TOL_RECOVER, f"C12/recover/{tag}", "destination = exact map of the sources within the class: apply(find(src, dst))(src) reproduces dst", max_error=err, truth_A=A, truth_b=b, fitted=_state(bal) if entry != "shortcut" else None)
    else:
        # not representable: the fit cannot beat the least-squares optimum (sanity of the residual bookkeeping)
        best = _best_residual(level, src, dst)
        r.check(after >= best - 1e-12, f"C12/residual/{name}", "the reported fit cannot be better than the closed-form least-squares optimum of its class", after=after, best=best)
    # --- inputs are only read
    r.check(np.array_equal(src, src0) and np.array_equal(dst, dst0), f"C12/inputs/{name}", "find_balance / apply_balance leave the swatch arrays unchanged")
    r.outcome((case["set"], case["form"], case["truth"], case.get("dtype"), name, case["start"], entry, round(after, 9), np.round(out.ravel()[:6], 7).tolist()))


def _run_staged(case, r):
    import darsia

    src, _, _, _, _ = _inputs(case)
    seq = case["seq"]
    names = stage_truths(case["truth"], len(seq), case["targets"])
    dsts = [apply_truth(n, src) for n in names]
    sc = seq_class(seq)
    ada = darsia.AdaptiveBalance()
    chain = []  # independently fitted stage balances
    res = []
    x_chain = src.astype(float).copy()
    p_chain = PROBE.copy()
    for k, mode in enumerate(seq):
        dst = dsts[k]
        Ap, bp = _state(ada)
        pre = ada.apply_balance(src)
        before = _res(pre, dst)
        # independent stage fit on the pre-balanced swatches
        st = getattr(darsia, STAGE_CLASS[mode])()
        st.find_balance(np.array(pre, copy=True), dst)
        As, bs = _state(st)
        chain.append((mode, As, bs))
        ada.find_balance(src, dst, mode=mode)
        An, bn = _state(ada)
        # --- composition in the convention of apply_balance: (x @ Ap + bp) @ As + bs
        wantA, wantb = Ap @ As, bp @ As + bs
        prev_diag = all(m == "diagonal" for m in seq[:k])
        commuting = k == 0 or (prev_diag and mode == "diagonal")
        r.check(
            np.abs(An - wantA).max() <= TOL_ALGEBRA,
            f"C12/adaptive/compose/scaling/{'commuting' if commuting else 'non-commuting'}",
            "accumulated scaling = previous scaling @ stage scaling (row-vector convention of apply_balance)",
            stage=k, mode=mode, got=An, want=wantA, previous=Ap, stage_scaling=As,
        )
        had_shift = any(m == "affine" for m in seq[:k])
        tcell = "prev-zero" if not had_shift else ("stage=affine" if mode == "affine" else "stage=non-affine")
        r.check(
            np.abs(bn - wantb).max() <= TOL_ALGEBRA,
            f"C12/adaptive/compose/translation/{tcell}",
            "accumulated translation = previous translation @ stage scaling + stage translation",
            stage=k, mode=mode, got=bn, want=wantb, previous=bp, stage_scaling=As, stage_translation=bs,
        )
        x_chain = x_chain @ As + bs
        p_chain = p_chain @ As + bs
        after = _res(ada.apply_balance(src), dst)
        res += [before, after]
        r.check(
            after <= before + TOL_MONO,
            f"C12/adaptive/staged-monotone/{sc}",
            "a further stage never increases the swatch residual (towards the destination of that stage) of the accumulated balance",
            stage=k, mode=mode, target=names[k], before=before, after=after,
        )
    # --- applying the accumulated balance = applying the stage balances one after the other
    got_s = np.asarray(ada.apply_balance(src), dtype=float)
    got_p = np.asarray(ada.apply_balance(PROBE.copy()), dtype=float)
    d = max(float(np.abs(got_s - x_chain).max()), float(np.abs(got_p - p_chain).max()))
    r.check(
        d <= TOL_APPLY,
        f"C12/adaptive/staged-apply/{sc}",
        "accumulated.apply(x) = stage_n(... stage_1(x)) on the swatches and on probe colours (0, unit vectors, white)",
        max_difference=d, targets=names, stages=[(m, a_, b_) for m, a_, b_ in chain], accumulated=_state(ada),
    )
    # --- a stage general enough for the remaining map makes the staged fit exact
    if recovering(seq, names):
        err = float(np.abs(got_s - dsts[-1]).max())
        _, A, b = truth_map(names[-1])
        r.check(
            err <= TOL_RECOVER,
            f"C12/adaptive/staged-recover/{sc}",
            "last destination = exact map of the sources and one stage can represent the remaining map: the accumulated balance reproduces it",
            max_error=err, targets=names, truth_A=A, truth_b=b, accumulated=_state(ada),
        )
    # --- reset gives back the identity
    ada.reset()
    A0, b0 = _state(ada)
    r.check(np.array_equal(A0, np.eye(3)) and np.array_equal(b0, np.zeros(3)), "C12/adaptive/reset", "reset() restores the identity balance", A=A0, b=b0)
    r.outcome((case["set"], case["form"], names, seq, [round(x, 9) for x in res], np.round(got_p.ravel(), 7).tolist()))


# ---- synthetic colour-checker image: constant blocks around the swatch windows that
# CustomColorChecker samples (rows 12/93/175/255 + 50, columns 12/95/177/260/344/427 + 50 of a
# 500-wide image), block borders half-way between the windows
_RB = [0, 78, 159, 240, 326]
_CB = [0, 78, 161, 243, 327, 410, 500]
_ROI = (slice(10, 336), slice(20, 520))


def checker_image(S):
    img = np.full((360, 540, 3), 0.5)
    chk = np.zeros((326, 500, 3))
    for i in range(4):
        for j in range(6):
            chk[_RB[i] : _RB[i + 1], _CB[j] : _CB[j + 1]] = S[i, j]
    img[_ROI] = chk
    return img


def _run_correction(case, r):
    import darsia
    import skimage
    from darsia.corrections.color.colorcorrection import CustomColorChecker

    wb, cb = case["wb"], case["cb"]
    tag = f"wb={int(wb)}/cb={cb}"
    tcls, A, b = truth_map(case["truth"])
    roi = darsia.make_voxel([[10, 20], [336, 20], [336, 520], [10, 520]])
    base = None if case["ref"] == "default" else CustomColorChecker(reference_colors=swatch_set(case["ref"]))
    corr = darsia.ColorCorrection(base=base, config={"roi": roi, "whitebalancing": wb, "colorbalancing": cb})
    R = np.asarray(corr.colorchecker.swatches_rgb, dtype=float)
    # photographed swatches S with S @ A + b = R
    S = (R - b) @ np.linalg.inv(A)
    if tcls == "nonaffine":  # no balance can undo this; only the composition is checked
        S = S + 0.25 * (S * S - S)
    img = checker_image(S)
    if case["dtype"] == "float32":
        img = img.astype(np.float32)
    elif case["dtype"] == "uint8":
        img = np.clip(np.round(img * 255), 0, 255).astype(np.uint8)
    img0 = img.copy()
    fimg = skimage.img_as_float(img).astype(float)

    out = corr.correct_array(img)
    r.check(np.array_equal(img, img0), f"C12/ColorCorrection/inputs/{tag}", "correct_array leaves the input image unchanged")
    r.check(out.shape == img.shape, f"C12/ColorCorrection/shape/{tag}", "corrected image has the shape of the input", got=list(out.shape))
    if out.shape != img.shape:
        return
    out = np.asarray(out, dtype=float)

    # what the correction saw (swatch extraction is not the subject of this property)
    env_reseed()
    seen = np.asarray(CustomColorChecker(image=fimg[_ROI]).swatches_rgb)
    exact_img = case["dtype"] != "uint8"
    if exact_img:
        ex = float(np.abs(seen - S).max())
        assert ex <= TOL_EXTRACT, f"harness: synthetic checker not extracted exactly ({ex})"

    # --- staged composition: white balance on the last row, then colour balance on the other rows
    x = fimg
    pre = seen
    if wb:
        st = darsia.WhiteBalance()
        st.find_balance(pre[-1], R_like(corr)[-1])
        x = x @ st.balance_scaling
        pre = pre @ st.balance_scaling
    st2 = darsia.AffineBalance() if cb == "affine" else darsia.ColorBalance()
    st2.find_balance(pre[:-1], R_like(corr)[:-1])
    b2 = _state(st2)[1]
    x = x @ st2.balance_scaling + b2
    d = float(np.abs(out - x.astype(np.float32)).max())
    r.check(
        d <= 1e-6,
        f"C12/ColorCorrection/staged-apply/{tag}",
        "corrected image = colour balance applied to the white-balanced image (stage balances re-fitted independently)",
        max_difference=d,
    )
    # --- recovery: the photographed checker is an exact diagonal/linear/affine image of the reference
    lvl = 3 if cb == "affine" else 2
    if exact_img and lvl >= LEVELS[tcls]:
        want = checker_image(R)
        err = float(np.abs(out[_ROI] - want[_ROI]).max())
        r.check(
            err <= TOL_CC,
            f"C12/ColorCorrection/recover/{tag}",
            "image swatches are an exact map of the reference swatches within the class of the colour balance: the corrected swatches are the reference swatches",
            max_error=err, truth_A=A, truth_b=b,
        )
    r.outcome((case["ref"], case["truth"], case["dtype"], wb, cb, np.round(out[_ROI][::80, ::80].ravel()[:12], 5).tolist()))


def R_like(corr):
    """Reference swatches exactly as correct_array hands them to the balance."""
    return corr.colorchecker.swatches_rgb


def env_reseed():
    from mc import env

    env.reseed(0)
