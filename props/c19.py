"""C19 — patching tiles an image exactly (E-lattice, exhaustive inside the stated bounds).

Every configuration (image shape x patch counts x relative overlap x payload x physical
frame) is built with the real ``darsia.Patches`` and compared with a boring reference:

* the base array is *provenance coded* (every entry is its own global index), so a patch
  or a re-assembled image says which base voxel every entry came from;
* tiling: the interiors (``relative_rois_without_overlap`` mapped through ``rois`` to global
  indices) are counted voxel by voxel on an integer cover array -- every voxel exactly once;
  ``assemble().img`` must equal the base array (and leave the base untouched);
* patch data: ``Patches(i, j).img`` is the base array at ``rois[i][j]`` and its interior is
  the base array inside ``global_corners_voxels[i, j]`` (which must be a box in the
  documented corner order top-left, bottom-left, bottom-right, top-right); a non-empty
  patch image sits where its voxels are (origin = coordinate of the first voxel of its roi,
  dimensions = extent of the voxels it holds; own cells ``C19/patch-placement/*``);
* coordinates: the only hard-coded knowledge is the 2-D affine convention of DESIGN C01
  (``x = ox + col * vx``, ``y = oy - row * vy``), written out here; voxel and metric corners
  / centres must be images of each other under that map (and, for frames with exactly
  representable voxel sizes, under ``base.coordinatesystem.voxel`` with ``==``); a centre is
  the midpoint of its corners and lies inside its voxel box.

Cells: ``C19/<clause>/<divisible | non-divisible | degenerate>/...`` where the class is
computed from integers only (degenerate = the smallest uniform covering leaves a patch
empty, e.g. more patches than voxels); voxel-level clauses add ``ov=0 | ov>0`` and
``exact | float`` (frame arithmetic), metric clauses add the frame name.
"""

from __future__ import annotations

import numpy as np

ID = "C19"
LEVEL = "exploration"
EXHAUSTIVE = True

OVERLAPS = [0.0, 0.1, 0.25, 0.5]
COUNTS = [1, 2, 3, 4, 5, 6]
FRAMES = ["unit", "dyadic", "default", "nondyadic"]
# frame -> (voxel size (row, col) or None for the Image default dimensions [1, 1], origin or None, exact arithmetic?)
FRAME = {
    "unit": ((1.0, 1.0), None, True),
    "dyadic": ((0.5, 2.0), (3.0, -2.0), True),
    "default": (None, None, False),
    "nondyadic": ((0.7, 0.3), (1000.1, -7.3), False),
}
BOUNDS = {"quick": {"full": 12, "wide": 40}, "thorough": {"full": 12, "wide": 40}}
# (payload, overlap) combinations run for one (shape, counts, frame), by case set
SETS = {
    # complete product
    "full": lambda frame: [(c, o) for c in (False, True) for o in OVERLAPS],
    # scalar with every frame, colour with the dyadic frame
    # (+ with the dyadic frame: a base image whose float data came from uint8 data through the public
    # img_as(float), and one that was used at another origin before it got the frame's origin)
    "std": lambda frame: [(False, o) for o in OVERLAPS] + ([(True, o) for o in OVERLAPS] + [(k, o) for k in ("converted", "moved", "nonfinite", "zero-bands") for o in (0, 0.25)] if frame == "dyadic" else []),
    # scalar x {unit, default, nondyadic} x overlap {0, 0.25}; colour x dyadic x overlap {0.1, 0.5}
    "wide": lambda frame: [(True, 0.1), (True, 0.5)] if frame == "dyadic" else [(False, 0.0), (False, 0.25)],
}

RULE = (
    "shape (H, W) x patch counts (n0, n1) in 1..6 squared x relative overlap {0, 0.1, 0.25, 0.5} x payload {scalar float64, colour uint16 x3, scalar converted from uint8 by img_as(float), scalar image moved to its origin after use, scalar image with +-inf voxels, scalar image with all-zero bands} x frame "
    "{unit voxel, dyadic anisotropic voxel + user origin, Image default dimensions [1,1], non-dyadic voxel + far origin}. Every shape with "
    "1 <= H, W <= 12: all 36 count pairs, all overlaps, scalar x every frame and colour x dyadic frame (thorough: complete payload x frame product). "
    "Extents 13..40: quick = shapes (1,H), (H,1), (H,H) with counts (1,k), (k,1), (k,k), k = 1..6; thorough = every shape up to 40x40 with all 36 count "
    "pairs; there scalar x {unit, default, non-dyadic} x overlap {0, 0.25} and colour x dyadic x overlap {0.1, 0.5}. Data are provenance coded "
    "(entry = own global index). Non-trivial = configuration was built and has more than one patch; distinct = distinct (shape, counts, overlap, payload, frame)."
)
ASSUMPTIONS = [
    "2-D coordinate convention x = ox + col*vx, y = oy - row*vy (DESIGN C01; CoordinateSystem itself is verified by C01)",
    "metric quantities compared to 1e-9 * (|origin| + extent); the smallest error a wrong corner can produce is 1/6 voxel",
    "a constructor that raises ValueError/NotImplementedError counts as 'cannot be built'; none does inside the bounds (counter 'refused')",
]


def describe(tier):
    b = BOUNDS[tier]
    return {
        "full_max_extent": b["full"],
        "wide_max_extent": b["wide"],
        "wide_shapes": "all" if tier == "thorough" else "(1,H),(H,1),(H,H) with counts along the long axes",
        "patch_counts_per_axis": COUNTS,
        "relative_overlaps": OVERLAPS,
        "payloads": ["scalar float64", "colour uint16 x3"],
        "frames": {k: {"voxel_size_row_col": v[0], "origin_xy": v[1], "exact": v[2]} for k, v in FRAME.items()},
        "small_set": "full" if tier == "thorough" else "std",
    }


def cases(tier):
    b = BOUNDS[tier]
    out = []
    pairs = [(n0, n1) for n0 in COUNTS for n1 in COUNTS]
    for h in range(1, b["wide"] + 1):
        for w in range(1, b["wide"] + 1):
            if max(h, w) <= b["full"]:
                cset, ns = ("full" if tier == "thorough" else "std"), pairs
            elif tier == "thorough":
                cset, ns = "wide", pairs
            elif w == 1:
                cset, ns = "wide", [(k, 1) for k in COUNTS]
            elif h == 1:
                cset, ns = "wide", [(1, k) for k in COUNTS]
            elif h == w:
                cset, ns = "wide", [(k, k) for k in COUNTS]
            else:
                continue
            for n0, n1 in ns:
                for frame in FRAMES:
                    out.append({"shape": [h, w], "n": [n0, n1], "frame": frame, "set": cset})
    out.sort(key=lambda c: (max(c["shape"]), c["shape"][0] * c["shape"][1], c["shape"], c["n"][0] * c["n"][1], c["n"], FRAMES.index(c["frame"])))
    return out


# ------------------------------------------------------------------------ reference
def _axis_class(nv, n):
    """A-priori class of one axis from integers only."""
    p = -(-nv // n)
    if (n - 1) * p >= nv:
        return "degenerate"  # some patch of the smallest uniform covering is empty
    return "divisible" if nv % n == 0 else "non-divisible"


def _config_class(shape, n):
    cl = {_axis_class(shape[0], n[0]), _axis_class(shape[1], n[1])}
    for c in ("degenerate", "non-divisible"):
        if c in cl:
            return c
    return "divisible"


def _base(shape, frame, colour):
    import darsia

    h, w = shape
    vs, origin, _ = FRAME[frame]
    kind = colour
    colour = kind is True
    if colour:
        data = (np.arange(h * w * 3, dtype=np.uint16) + 1).reshape(h, w, 3)
    elif kind == "converted":
        data = ((np.arange(h * w) % 251) + 1).astype(np.uint8).reshape(h, w)
    elif kind == "zero-bands":
        # data that vanish on whole bands of rows / columns (masks, black margins): the first half of the
        # rows and the last third of the columns are zero
        data = (np.arange(h * w, dtype=float) + 1.0).reshape(h, w)
        data[: max(h // 2, 1), :] = 0.0
        data[:, w - max(w // 3, 1) :] = 0.0
    elif kind == "nonfinite":
        # float data with +inf / -inf voxels spread over the image (every third / fifth voxel), so that
        # some lie in overlap regions for every patch layout
        data = (np.arange(h * w, dtype=float) + 1.0).reshape(h, w)
        data.flat[::3] = np.inf
        data.flat[1::5] = -np.inf
    else:
        data = (np.arange(h * w, dtype=float) + 1.0).reshape(h, w)
    kw = dict(space_dim=2, scalar=not colour)
    if vs is None:
        dims = [1.0, 1.0]
    else:
        dims = [vs[0] * h, vs[1] * w]
        kw["dimensions"] = list(dims)
    if origin is None:
        org = (0.0, dims[0])
    else:
        org = origin
        kw["origin"] = list(origin)
    if kind == "moved":
        # the image lives at another origin first and is asked for everything that depends on it ...
        kw0 = dict(kw)
        kw0["origin"] = [org[0] - 7.0, org[1] + 3.0]
        img = darsia.Image(data.copy(), **kw0)
        img.coordinatesystem.coordinate(np.zeros(2, dtype=int)), img.opposite_corner, img.domain
        darsia.Patches(img, [1, 1])
        # ... and is then given the frame's origin through the public metadata update
        img.update_metadata(origin=darsia.Coordinate(np.array(org, dtype=float)))
        return img, data, dims, org
    img = darsia.Image(data.copy(), **kw)
    if kind == "converted":
        img = img.img_as(float)  # keeps original_dtype = uint8; the current data are floats k/255
        data = img.img.copy()
    return img, data, dims, org


def _span(sl, n):
    """(start, stop) of a step-1 slice on an axis of length n, by Python's own rule."""
    a, b, st = sl.indices(n)
    assert st == 1
    return a, max(a, b)


# ------------------------------------------------------------------------ the check
def run_case(case, r):
    shape = tuple(case["shape"])
    n = tuple(case["n"])
    frame = case["frame"]
    for colour, ov in SETS[case["set"]](frame):
        _one(r, shape, n, frame, colour, ov)


def _one(r, shape, n, frame, colour, ov):
    import darsia

    h, w = shape
    n0, n1 = n
    exact = FRAME[frame][2]
    cls = _config_class(shape, n)
    ovc = "ov=0" if ov == 0 else "ov>0"
    arith = "exact" if exact else "float"
    detail = dict(shape=list(shape), n=list(n), rel_overlap=ov, colour=colour, frame=frame)

    def vcell(clause):  # voxel-level clauses
        return f"C19/{clause}/{cls}/{ovc}/{arith}"

    def mcell(clause):  # metric clauses
        return f"C19/{clause}/{cls}/{frame}"

    base, pristine, dims, org = _base(shape, frame, colour)
    kind, colour = colour, colour is True
    detail["payload"] = kind if isinstance(kind, str) else ("colour" if kind else "scalar")
    try:
        P = darsia.Patches(base, [n0, n1], rel_overlap=ov)
    except (ValueError, NotImplementedError) as e:
        r.count("refused")
        r.outcome(("refused", type(e).__name__))
        return
    r.count("built")
    if n0 * n1 > 1:
        r.nontriv((shape, n, frame, kind, ov))

    # ---- structure of the advertised tables
    ok = (
        len(P.rois) == n0
        and all(len(row) == n1 for row in P.rois)
        and len(P.relative_rois_without_overlap) == n0
        and all(len(row) == n1 for row in P.relative_rois_without_overlap)
        and np.shape(P.global_corners_voxels) == (n0, n1, 4, 2)
        and np.shape(P.global_corners_cartesian) == (n0, n1, 4, 2)
        and np.shape(P.global_centers_voxels) == (n0, n1, 2)
        and np.shape(P.global_centers_cartesian) == (n0, n1, 2)
    )
    if not r.check(ok, f"C19/tables/{cls}", "one roi / interior / corner set / centre per patch index", **detail):
        return
    gcv = np.asarray(P.global_corners_voxels)
    gcc = np.asarray(P.global_corners_cartesian, dtype=float)
    gzv = np.asarray(P.global_centers_voxels)
    gzc = np.asarray(P.global_centers_cartesian, dtype=float)
    r.check(np.issubdtype(gcv.dtype, np.integer) and np.issubdtype(gzv.dtype, np.integer), f"C19/tables/{cls}", "voxel corners and centres are integers", **detail)

    # ---- tiling, patch data, corners-as-boxes (one pass over the patches)
    cover = np.zeros((h, w), dtype=int)
    bounds = ([], [])
    bad_patch = bad_interior = bad_box = bad_place = None
    vy, vx = dims[0] / h, dims[1] / w
    tol = 1e-9 * (abs(org[0]) + abs(org[1]) + dims[0] + dims[1])
    for i in range(n0):
        for j in range(n1):
            roi = P.rois[i][j]
            rel = P.relative_rois_without_overlap[i][j]
            a0, b0 = _span(roi[0], h)
            a1, b1 = _span(roi[1], w)
            # interior in global indices: the patch array holds rows a0..b0-1, rel picks among them
            r0, s0 = _span(rel[0], b0 - a0)
            r1, s1 = _span(rel[1], b1 - a1)
            g0, g1 = (a0 + r0, a0 + s0), (a1 + r1, a1 + s1)
            cover[g0[0] : g0[1], g1[0] : g1[1]] += 1
            if j == 0:
                bounds[0].append(g0)
            if i == 0:
                bounds[1].append(g1)
            patch = P(i, j)
            arr = np.asarray(patch.img)
            if bad_patch is None and not (arr.shape == pristine[a0:b0, a1:b1].shape and np.array_equal(arr, pristine[a0:b0, a1:b1])):
                bad_patch = dict(patch=[i, j], roi=[[a0, b0], [a1, b1]], got_shape=list(arr.shape))
            c = gcv[i, j]
            lo0, lo1, hi0, hi1 = int(c[0, 0]), int(c[0, 1]), int(c[2, 0]), int(c[2, 1])
            if bad_box is None and not (c[1].tolist() == [hi0, lo1] and c[3].tolist() == [lo0, hi1]):
                bad_box = dict(patch=[i, j], corners=c.tolist())
            want = pristine[max(lo0, 0) : max(hi0, 0), max(lo1, 0) : max(hi1, 0)]
            got = arr[rel] if arr.ndim >= 2 else arr
            if bad_interior is None and not (got.shape == want.shape and np.array_equal(got, want)):
                bad_interior = dict(patch=[i, j], corners_lo_hi=[[lo0, hi0], [lo1, hi1]], interior_global=[list(g0), list(g1)], got_shape=list(got.shape), want_shape=list(want.shape))
            # placement of the patch image: same voxel size as the base, origin at the voxel its roi starts at
            if bad_place is None and arr.shape[0] > 0 and arr.shape[1] > 0:
                po = np.asarray(patch.origin, dtype=float)
                pd = [float(x) for x in patch.dimensions]
                wo = (org[0] + a1 * vx, org[1] - a0 * vy)
                wd = [(b0 - a0) * vy, (b1 - a1) * vx]
                if not (abs(po[0] - wo[0]) <= tol and abs(po[1] - wo[1]) <= tol and abs(pd[0] - wd[0]) <= tol and abs(pd[1] - wd[1]) <= tol):
                    bad_place = dict(patch=[i, j], roi=[[a0, b0], [a1, b1]], roi_advertised=[str(roi[0]), str(roi[1])], origin=po.tolist(), want_origin=list(wo), dimensions=pd, want_dimensions=wd)
    r.check(bool(np.all(cover == 1)), vcell("tiling"), "interiors cover every voxel exactly once", uncovered=int(np.sum(cover == 0)), multiply_covered=int(np.sum(cover > 1)), **detail)
    r.check(bad_patch is None, vcell("patch-data"), "Patches(i,j).img is the base array at rois[i][j]", first=bad_patch, **detail)
    r.check(bad_box is None, vcell("corner-order"), "global_corners_voxels is a box listed as top-left, bottom-left, bottom-right, top-right", first=bad_box, **detail)
    r.check(bad_interior is None, vcell("patch-at-corners"), "the interior of patch (i,j) is the sub-image of the base between its advertised voxel corners", first=bad_interior, **detail)
    r.check(bad_place is None, vcell("patch-placement"), "a (non-empty) patch sits at the voxels of its roi: origin = coordinate of the roi start, dimensions = extent of the voxels it holds", first=bad_place, **detail)

    # ---- re-assembly
    try:
        out = P.assemble()
        same = out.img.shape == pristine.shape and np.array_equal(out.img, pristine)
        r.check(same, vcell("assemble"), "assemble().img equals the base array", got_shape=list(out.img.shape), **detail)
        r.check(out.img.dtype == pristine.dtype, vcell("assemble-dtype"), "assemble() keeps the dtype", got=str(out.img.dtype), want=str(pristine.dtype), **detail)
    except (AssertionError, ValueError) as e:
        r.fail(vcell("assemble"), "assemble() reproduces the base array", exception=repr(e), **detail)
    r.check(np.array_equal(base.img, pristine), vcell("base-untouched"), "building and assembling leave the base array as it was", **detail)
    # ---- assembling is an observation, not an operation on the patches: afterwards every patch is still
    # the sub-image at its roi, and assembling again gives the image again
    try:
        bad_after = None
        for pi2 in range(n0):
            for pj2 in range(n1):
                rs_, cs_ = P.rois[pi2][pj2]
                wantp = pristine[rs_, cs_]
                gotp = np.asarray(P(pi2, pj2).img)
                if gotp.shape != wantp.shape or not np.array_equal(gotp, wantp):
                    bad_after = bad_after or [pi2, pj2, list(gotp.shape), list(wantp.shape)]
        r.check(bad_after is None, vcell("patch-data-after-assemble"), "after assemble() every patch is still the base array at its roi", first=bad_after, **detail)
        again = P.assemble()
        r.check(again.img.shape == pristine.shape and np.array_equal(again.img, pristine), vcell("assemble-twice"), "a second assemble() reproduces the base array as the first did", got_shape=list(again.img.shape), **detail)
    except (AssertionError, ValueError, IndexError) as e:
        r.fail(vcell("assemble-twice"), "patches can be inspected and assembled again after assemble()", exception=repr(e), **detail)

    # ---- call history on the same object: one patch is replaced (set_image), then the image is
    # assembled again.  Interiors still tile the image: exactly the interior of that patch changes.
    try:
        npi, npj = int(P.num_patches[0]), int(P.num_patches[1])
        pi_, pj_ = npi - 1, 0
        old = np.array(P(pi_, pj_).img)
        if old.size:
            P.set_image(np.full_like(old, 7), pi_, pj_)
            out2 = P.assemble()
            want2 = pristine.copy()
            c = np.asarray(P.global_corners_voxels[pi_][pj_], dtype=int)
            r0, r1, c0, c1 = c[:, 0].min(), c[:, 0].max(), c[:, 1].min(), c[:, 1].max()
            want2[r0:r1, c0:c1] = 7
            r.check(out2.img.shape == want2.shape and np.array_equal(out2.img, want2), vcell("assemble-after-set_image"), "after replacing one patch, re-assembly changes exactly the interior of that patch (no double cover through shared memory)", patch=[pi_, pj_], **detail)
            r.check(np.array_equal(base.img, pristine), vcell("base-untouched"), "set_image leaves the base array as it was", **detail)
    except (AssertionError, ValueError) as e:
        r.fail(vcell("assemble-after-set_image"), "set_image followed by assemble works", exception=repr(e), **detail)

    # ---- voxel <-> metric agreement under the base frame (own affine map)
    def to_xy(vox):  # (..., 2) (row, col) -> (..., 2) (x, y)
        vox = np.asarray(vox, dtype=float)
        return np.stack((org[0] + vox[..., 1] * vx, org[1] - vox[..., 0] * vy), axis=-1)

    def to_rc(xy):  # (..., 2) (x, y) -> fractional (row, col)
        xy = np.asarray(xy, dtype=float)
        return np.stack(((org[1] - xy[..., 1]) / vy, (xy[..., 0] - org[0]) / vx), axis=-1)

    err = np.abs(gcc - to_xy(gcv))
    k = np.unravel_index(int(np.argmax(err)), err.shape)
    r.check(
        bool(np.all(err <= tol)),
        mcell("corners-metric-vs-voxel"),
        "global_corners_cartesian is the base-frame coordinate of global_corners_voxels",
        patch=[int(k[0]), int(k[1])],
        corner=int(k[2]),
        voxel=gcv[k[0], k[1], k[2]].tolist(),
        cartesian=gcc[k[0], k[1], k[2]].tolist(),
        want_cartesian=to_xy(gcv)[k[0], k[1], k[2]].tolist(),
        **detail,
    )
    # centres: voxel centre is the voxel containing the metric centre
    frac = to_rc(gzc)
    eps = 1e-9 * (1.0 + np.abs(frac))
    inside = (gzv >= np.floor(frac - eps)) & (gzv <= np.floor(frac + eps))
    k = np.unravel_index(int(np.argmin(inside)), inside.shape)
    r.check(
        bool(np.all(inside)),
        mcell("centres-metric-vs-voxel"),
        "global_centers_voxels is the voxel that contains global_centers_cartesian",
        patch=[int(k[0]), int(k[1])],
        voxel=gzv[k[0], k[1]].tolist(),
        cartesian=gzc[k[0], k[1]].tolist(),
        fractional_voxel=frac[k[0], k[1]].tolist(),
        **detail,
    )
    # centres against corners: midpoint in metric units, and inside the voxel box
    mid = gcc.mean(axis=2)
    err = np.abs(gzc - mid)
    k = np.unravel_index(int(np.argmax(err)), err.shape)
    r.check(bool(np.all(err <= tol)), mcell("centre-is-midpoint"), "global_centers_cartesian is the midpoint of global_corners_cartesian", patch=[int(k[0]), int(k[1])], centre=gzc[k[0], k[1]].tolist(), midpoint=mid[k[0], k[1]].tolist(), **detail)
    lo, hi = gcv[:, :, 0, :], gcv[:, :, 2, :]
    nonempty = np.all(hi > lo, axis=-1)
    within = np.all((gzv >= lo) & (gzv < hi), axis=-1) | ~nonempty
    k = np.unravel_index(int(np.argmin(within)), within.shape)
    r.check(bool(np.all(within)), mcell("centre-in-voxel-box"), "the voxel centre of a non-empty patch lies between its voxel corners", patch=[int(k[0]), int(k[1])], centre_voxel=gzv[k[0], k[1]].tolist(), lo=lo[k[0], k[1]].tolist(), hi=hi[k[0], k[1]].tolist(), **detail)
    if exact:
        cs = base.coordinatesystem
        v = np.asarray(cs.voxel(gcc.reshape(-1, 2))).reshape(gcv.shape)
        r.check(np.array_equal(v, gcv), mcell("corners-metric-vs-voxel"), "coordinatesystem.voxel(global_corners_cartesian) == global_corners_voxels", **detail)
        v = np.asarray(cs.voxel(gzc.reshape(-1, 2))).reshape(gzv.shape)
        r.check(np.array_equal(v, gzv), mcell("centres-metric-vs-voxel"), "coordinatesystem.voxel(global_centers_cartesian) == global_centers_voxels", **detail)

    r.outcome((bounds[0], bounds[1], [int(x) for x in P.ov], gzv.tolist()))


def crash_cell(case, exc, where):
    cls = _config_class(tuple(case["shape"]), tuple(case["n"]))
    return f"C19/crash/{type(exc).__name__}@{where}/{cls}"
