"""C15 — every quadrature rule is exact to its nominal degree (E-lattice, exhaustive).

The space is the finite table of rules: all (dim, order) the API accepts, on [-1,1]^d
and on the unit cell, plus the corner rule; all monomials up to per-variable degree
2n-1.  A rule the API refuses with NotImplementedError is "not offered" (counted, not
a violation); any other exception is a violation.
"""

from __future__ import annotations

import itertools

import numpy as np

ID = "C15"
LEVEL = "exploration"
EXHAUSTIVE = True
RULE = (
    "all (dim in 1..3) x (order in 0..5, 'max') x {gauss on [-1,1]^d, gauss_reference_cell on [0,1]^d} + reference_cell_corners(dim); "
    "per rule: count/positivity/measure and every monomial with per-variable degree <= 2n-1; the rule in use inside transport_density per L1 mode on "
    "generic grids and grids with single-cell axes; every (modify one returned rule in place, request any rule again) pair. Non-trivial = the rule is offered (no "
    "NotImplementedError); distinct = distinct (function, dim, order)."
)
ASSUMPTIONS = ["float64 evaluation of monomials, tolerance 1e-13"]
ORDERS = [0, 1, 2, 3, 4, 5, "max"]
TOL = 1e-13


def describe(tier):
    return {"dims": [1, 2, 3], "orders": ORDERS, "domains": ["gauss", "gauss_reference_cell", "reference_cell_corners"]}


def cases(tier):
    out = []
    for dim in (1, 2, 3):
        for order in ORDERS:
            for fn in ("gauss", "gauss_reference_cell"):
                out.append({"fn": fn, "dim": dim, "order": order})
        out.append({"fn": "reference_cell_corners", "dim": dim})
    out.append({"fn": "default-rules"})
    # the rule each L1 mode actually applies inside transport_density, observed through its output
    for dim in (1, 2, 3):
        for mode in ("RAVIART_THOMAS", "CONSTANT_SUBCELL_PROJECTION", "CONSTANT_CELL_PROJECTION"):
            out.append({"fn": "rule-in-use", "dim": dim, "mode": mode})
            # grids with single-cell axes (one page / one row of voxels)
            for shape in {2: [(4, 1), (1, 4)], 3: [(4, 3, 1), (4, 1, 3), (1, 4, 3), (4, 1, 1), (1, 1, 4)]}.get(dim, []):
                out.append({"fn": "rule-in-use", "dim": dim, "mode": mode, "shape": list(shape)})
    # what a request returns is the caller's: changing it in place must not change later requests
    out.append({"fn": "results-owned"})
    return out


def exact(ks, domain):
    v = 1.0
    for k in ks:
        if domain == "gauss":
            v *= 2.0 / (k + 1) if k % 2 == 0 else 0.0
        else:
            v *= 1.0 / (k + 1)
    return v


def run_case(case, r):
    import darsia

    q = darsia.quadrature
    fn = case["fn"]
    if fn == "default-rules":
        # the rules transport_density may select (gauss_reference_cell(dim,"max"),
        # corners, gauss_reference_cell(dim,0)) must be among the rules checked above
        for dim in (1, 2, 3):
            for order in ("max", 0):
                try:
                    pts, w = q.gauss_reference_cell(dim, order)
                    r.check(len(pts) == len(w), f"C15/default-rules/dim={dim},order={order}", "default rule has as many weights as points")
                    r.nontriv(("default", dim, order))
                except NotImplementedError:
                    r.fail(f"C15/default-rules/dim={dim},order={order}", "the rule selected by default must be offered")
        return
    if fn == "results-owned":
        import darsia.measure.wasserstein as W

        reqs = [("gauss", d, o) for d in (1, 2, 3) for o in ORDERS] + [("gauss_reference_cell", d, o) for d in (1, 2, 3) for o in ORDERS] + [("reference_cell_corners", d) for d in (1, 2, 3)]

        def ask(req):
            try:
                p, w = getattr(q, req[0])(*req[1:])
                return np.asarray(p), np.asarray(w)
            except NotImplementedError:
                return None

        first = {req: ask(req) for req in reqs}
        snap = {req: None if v is None else (v[0].copy(), v[1].copy()) for req, v in first.items()}
        # the rule in use before anything was modified (corner rule: CONSTANT_SUBCELL_PROJECTION)
        grid = darsia.Grid((4, 3), [0.5, 2.0])
        flux = np.arange(1.0, grid.num_faces + 1)
        dens0 = {m: W.WassersteinDistanceNewton(grid, None, {"l1_mode": getattr(W.L1Mode, m)}).transport_density(flux.copy(), weighted=False, flatten=False) for m in ("RAVIART_THOMAS", "CONSTANT_SUBCELL_PROJECTION", "CONSTANT_CELL_PROJECTION")}
        for req in reqs:
            if first[req] is None:
                continue
            p, w = first[req]
            try:
                p += 7.0
                w *= 0.0
            except ValueError:
                pass  # read-only results cannot be spoiled; equally fine
            for other in reqs:
                again = ask(other)
                if snap[other] is None or again is None:
                    continue
                r.check(np.array_equal(again[0], snap[other][0]) and np.array_equal(again[1], snap[other][1]), f"C15/results-owned/{other[0]}", "a rule requested after the caller modified an earlier result in place is the rule requested the first time", modified=req, requested=other)
        for m, d0 in dens0.items():
            d1 = W.WassersteinDistanceNewton(grid, None, {"l1_mode": getattr(W.L1Mode, m)}).transport_density(flux.copy(), weighted=False, flatten=False)
            r.check(np.array_equal(d0, d1), f"C15/results-owned/rule-in-use/{m}", "the rule applied by transport_density is not affected by what callers did to rules they requested", mode=m)
        r.nontriv(("results-owned",))
        r.outcome(("results-owned", len(reqs)))
        return
    dim = case["dim"]
    if fn == "rule-in-use":
        # A face flux that is constant (resp. linear) along one axis gives, in the cells away from the
        # boundary, an RT0 field that is constant (resp. linear with fixed sign) in the cell: every rule
        # that integrates constants and linear functions exactly returns |u| (resp. the cell mean).
        import darsia.measure.wasserstein as W

        mode = case["mode"]
        shape = tuple(case["shape"]) if "shape" in case else ((5,) if dim == 1 else ((4, 3) if dim == 2 else (4, 3, 2)))
        vs = [0.5, 2.0, 0.25][:dim]
        grid = darsia.Grid(shape, vs)
        obj = W.WassersteinDistanceNewton(grid, None, {"l1_mode": getattr(W.L1Mode, mode)})
        cell = f"C15/rule-in-use/{mode}/dim={dim}" + ("/single-cell-axis" if min(shape) == 1 and dim > 1 else "")
        r.nontriv((fn, dim, mode, shape))
        ci = np.asarray(grid.cell_index)
        for d in range(dim):
            if shape[d] < 3:
                continue
            faces = np.asarray(grid.faces[d], dtype=int)
            conn = np.asarray(grid.connectivity)
            pos = {int(ci[idx]): idx for idx in np.ndindex(*shape)}
            for kind in ("constant", "linear"):
                flux = np.zeros(grid.num_faces)
                for f in faces:
                    lower = pos[int(conn[f, 0])][d]  # face between layers `lower` and `lower + 1`
                    flux[f] = 1.0 if kind == "constant" else float(lower + 1)
                dens = obj.transport_density(flux, weighted=False, flatten=False)
                ok = True
                for idx in np.ndindex(*shape):
                    if 1 <= idx[d] <= shape[d] - 2:
                        # lower face value idx[d], upper face value idx[d] + 1 (linear); 1 and 1 (constant)
                        want = 1.0 if kind == "constant" else idx[d] + 0.5
                        if abs(dens[idx] - want) > 1e-13 * max(1.0, want):
                            ok = False
                            r.fail(cell + f"/{kind}", "the rule applied by transport_density integrates constants and linear functions exactly (cell density of a constant / linear flux)", axis=d, cell_index=idx, got=float(dens[idx]), want=want)
                            break
                if ok:
                    r.ok()
        r.outcome((fn, dim, mode, shape))
        return
    if fn == "reference_cell_corners":
        pts, w = q.reference_cell_corners(dim)
        cell = f"C15/corners/dim={dim}"
        pts = np.asarray(pts, dtype=float).reshape(len(pts), -1)
        r.nontriv((fn, dim))
        r.check(len(pts) == len(w) == 2**dim, cell + "/counts", "2^dim corners, as many weights", npts=len(pts), nw=len(w))
        r.check(np.all(np.asarray(w) > 0) and abs(np.sum(w) - 1.0) <= TOL, cell + "/weights", "positive weights summing to 1")
        r.check(len({tuple(p) for p in pts.tolist()}) == 2**dim and set(np.unique(pts).tolist()) <= {0.0, 1.0}, cell + "/points", "points are the distinct corners of the unit cell")
        if len(pts) == len(w):
            for ks in itertools.product((0, 1), repeat=dim):
                val = float(np.sum(np.asarray(w) * np.prod(pts ** np.array(ks), axis=1)))
                r.check(abs(val - exact(ks, "cell")) <= TOL, cell + "/multilinear", "corner rule integrates multilinear monomials exactly", monomial=ks, got=val, want=exact(ks, "cell"))
        r.outcome((fn, dim, pts.tolist(), np.asarray(w).tolist()))
        return

    order = case["order"]
    cell = f"C15/{fn}/dim={dim},order={order}"
    try:
        pts, w = getattr(q, fn)(dim, order)
    except NotImplementedError:
        r.ok()
        r.count("not_offered")
        r.outcome((fn, dim, order, "not offered"))
        return
    r.nontriv((fn, dim, order))
    pts = np.asarray(pts, dtype=float)
    w = np.asarray(w, dtype=float)
    r.outcome((fn, dim, order, pts.tolist(), w.tolist()))
    domain = "gauss" if fn == "gauss" else "cell"
    measure = 2.0**dim if domain == "gauss" else 1.0
    r.check(w.ndim == 1 and pts.shape[0] == w.shape[0], cell + "/counts", "as many weights as points", npts=int(pts.shape[0]), nw=int(w.shape[0]))
    r.check(pts.ndim == (1 if dim == 1 else 2) and (dim == 1 or pts.shape[1] == dim), cell + "/counts", "points have dim coordinates", shape=list(pts.shape))
    P = pts.reshape(pts.shape[0], -1)
    N = P.shape[0]
    n = int(round(N ** (1.0 / dim)))
    r.check(n**dim == N, cell + "/counts", "tensor rule: n^dim points", npts=N)
    if isinstance(order, int):
        r.check(n == order + 1, cell + "/counts", "order k has k+1 points per direction", n=n)
    r.check(bool(np.all(w > 0)), cell + "/weights", "weights are positive", weights=w)
    r.check(abs(float(np.sum(w)) - measure) <= TOL * measure * 8, cell + "/weights", "weights sum to the measure of the cell", got=float(np.sum(w)), want=measure)
    lo, hi = (-1.0, 1.0) if domain == "gauss" else (0.0, 1.0)
    r.check(bool(np.all(P > lo) and np.all(P < hi)), cell + "/points", "points lie inside the cell")
    if P.shape[0] != w.shape[0] or P.shape[1] != dim:
        return
    worst = (0.0, None, None, None)
    for ks in itertools.product(range(2 * n), repeat=dim):
        val = float(np.sum(w * np.prod(P ** np.array(ks), axis=1)))
        want = exact(ks, domain)
        err = abs(val - want)
        r.ok()
        if err > worst[0]:
            worst = (err, ks, val, want)
    deg = sum(worst[1]) if worst[1] else 0
    if worst[0] > TOL * measure * 8:
        sub = "constants-and-linear" if deg <= 1 else "degree<=2n-1"
        r.fail(cell + "/exactness", f"every monomial of per-variable degree <= 2n-1 = {2*n-1} is integrated exactly ({sub})", monomial=worst[1], got=worst[2], want=worst[3], err=worst[0])
    if order == "max":
        # 'max' must resolve to one of the integer orders
        same = False
        for k in range(0, 6):
            try:
                p2, w2 = getattr(q, fn)(dim, k)
            except NotImplementedError:
                continue
            if np.asarray(p2).shape == pts.shape and np.array_equal(np.asarray(p2, float), pts) and np.array_equal(np.asarray(w2, float), w):
                same = True
        r.check(same, cell + "/max", "'max' resolves to one of the offered integer orders")
