"""C20 — matrix and Cartesian axis conventions are coherent in every dimension (exhaustive).

The finite tables are enumerated completely (all dims, axes, directions, spellings).
The only hard-coded knowledge of the reference model is the coordinate-system
convention itself (the orientation of one voxel step, DESIGN C01):
    1-D: i -> +x        2-D: i -> -y, j -> +x        3-D: i -> -z, j -> +x, k -> -y
and even that is cross-checked against the real CoordinateSystem.
"""

from __future__ import annotations

import itertools

import numpy as np

ID = "C20"
LEVEL = "exploration"
EXHAUSTIVE = True
RULE = (
    "tables: dims 1..3 x every axis x both directions x both spellings (letter, int); layout helpers: every array shape with extents "
    "1..3 (thorough 1..4) x payload {none, trailing 2} with provenance-coded data; Image.slice / reduce_axis: every 2-D and 3-D image shape "
    "with extents 1..3 x origin {default, user, user spelled with ints} x every axis (int and Cartesian name) x every cut position x modes {average, sum}; coordinate systems of 1-D/2-D/3-D images created in every order (all "
    "permutations of 2 and 3 dimensions) and kept. "
    "Non-trivial = every case (each compares two independent sources); distinct = distinct case descriptor."
)
ASSUMPTIONS = ["the coordinate-system convention of the reference model is the documented one (cross-checked against CoordinateSystem)"]

# matrix axis -> (cartesian axis, sign of the coordinate step)
CONV = {
    1: {"i": ("x", +1)},
    2: {"i": ("y", -1), "j": ("x", +1)},
    3: {"i": ("z", -1), "j": ("x", +1), "k": ("y", -1)},
}


def describe(tier):
    return {"dims": [1, 2, 3], "max_extent": 3 if tier == "quick" else 4}


def cases(tier):
    out = []
    for dim in (1, 2, 3):
        out.append({"kind": "tables", "dim": dim})
    n = 3 if tier == "quick" else 4
    for dim in (1, 2, 3):
        for s in itertools.product(range(1, n + 1), repeat=dim):
            for payload in (0, 2):
                out.append({"kind": "layout", "dim": dim, "shape": list(s), "payload": payload})
    for dim in (2, 3):
        for s in itertools.product(range(1, n + 1), repeat=dim):
            for origin in ("default", "user", "user-int"):
                out.append({"kind": "image-axis", "dim": dim, "shape": list(s), "origin": origin})
    # coordinate systems of images of different dimension, created in every order and KEPT: each
    # keeps following the table of its own dimension whatever was created after it
    for order in itertools.permutations((1, 2, 3)):
        out.append({"kind": "kept-systems", "dim": order[0], "order": list(order)})
    for order in itertools.permutations((1, 2, 3), 2):
        out.append({"kind": "kept-systems", "dim": order[0], "order": list(order)})
    # export to the Cartesian (VTK) layout: scalar and vector cell data
    for dim in (1, 2, 3):
        for s in [tuple([2, 3, 4][:dim]), tuple([3, 2, 2][:dim]), tuple([2] * dim)]:
            out.append({"kind": "vtk", "dim": dim, "shape": list(s)})
    return out


def _img(shape, origin, payload=0):
    import darsia

    dim = len(shape)
    data = np.arange(1, int(np.prod(shape)) * max(payload, 1) + 1, dtype=float).reshape(tuple(shape) + ((payload,) if payload else ()))
    vs = [0.5, 2.0, 0.25][:dim]
    kw = dict(space_dim=dim, dimensions=[vs[a] * shape[a] for a in range(dim)], scalar=(payload == 0))
    if origin == "user":
        kw["origin"] = [3.125, -2.75, 5.0625][:dim]  # dyadic, but not on the voxel lattice of any axis
    elif origin == "user-int":
        kw["origin"] = [3, -2, 5][:dim]  # the same corner spelled with ints (integer-typed origin array)
    return darsia.Image(data, **kw), vs


def run_case(case, r):
    import darsia

    dim = case["dim"]
    mat, car = "ijk"[:dim], "xyz"[:dim]
    r.nontriv(case)
    if case["kind"] == "tables":
        conv = CONV[dim]
        # --- the coordinate system itself follows the convention
        img, vs = _img([2, 3, 4][:dim], "user")
        cs = img.coordinatesystem
        o = np.asarray(cs.coordinate(np.zeros(dim, dtype=int)), dtype=float)
        for p, m in enumerate(mat):
            e = np.zeros(dim, dtype=int)
            e[p] = 1
            step = np.asarray(cs.coordinate(e), dtype=float) - o
            want = np.zeros(dim)
            want[car.index(conv[m][0])] = conv[m][1] * vs[p]
            r.check(np.array_equal(step, want), f"C20/coordinate-system/dim={dim}/axis={m}", "one voxel step moves along the conventional Cartesian axis with the conventional orientation", got=step, want=want)
        # ... for voxel indices of every integer storage type (reversed axes negate the step: unsigned
        # types must not wrap), and for the all-voxel batches of the system
        for dt_ in ("uint8", "uint16", "uint32", "uint64", "int8", "int32"):
            for p, m in enumerate(mat):
                e = np.zeros(dim, dtype=dt_)
                e[p] = 1
                step = np.asarray(cs.coordinate(e), dtype=float) - o
                want = np.zeros(dim)
                want[car.index(conv[m][0])] = conv[m][1] * vs[p]
                r.check(np.array_equal(step, want), f"C20/coordinate-system/dim={dim}/axis={m}/index-dtype", "one voxel step follows the convention whatever integer type the index is stored in", dtype=dt_, got=step, want=want)
        allv, allc = np.asarray(cs.voxels), np.asarray(cs.coordinates, dtype=float)
        okb = allv.shape == allc.shape == (int(np.prod(img.num_voxels)), dim)
        if okb:
            for nrow in range(allv.shape[0]):
                wantc = o.copy()
                for p, m in enumerate(mat):
                    wantc[car.index(conv[m][0])] += conv[m][1] * vs[p] * allv[nrow, p]
                if not np.array_equal(allc[nrow], wantc):
                    okb = False
                    break
        r.check(okb, f"C20/coordinate-system/dim={dim}/all-voxels-batch", "coordinates[n] is the coordinate of voxels[n] under the axis convention (walking along a matrix axis in the voxel list moves along its Cartesian partner)", shape=list(img.num_voxels))
        # --- interpret_indexing versus the convention, both directions
        for p, m in enumerate(mat):
            c, sgn = conv[m]
            cell = f"C20/interpret_indexing/dim={dim}/axis={m}"
            try:
                got = darsia.interpret_indexing(m, car)
                r.check(tuple(got) == (car.index(c), sgn < 0), cell, "matrix axis -> (Cartesian position, reversed?)", got=got, want=(car.index(c), sgn < 0))
                got = darsia.interpret_indexing(c, mat)
                r.check(tuple(got) == (p, sgn < 0), f"C20/interpret_indexing/dim={dim}/axis={c}", "Cartesian axis -> (matrix position, reversed?)", got=got, want=(p, sgn < 0))
                # identity rows
                r.check(tuple(darsia.interpret_indexing(m, mat)) == (p, False), cell, "matrix axis in matrix indexing is itself")
                r.check(tuple(darsia.interpret_indexing(c, car)) == (car.index(c), False), f"C20/interpret_indexing/dim={dim}/axis={c}", "Cartesian axis in Cartesian indexing is itself")
            except ValueError as e:
                r.fail(cell, "interpret_indexing covers every axis of every dimension", exception=repr(e))
        # --- to_matrix_indexing / to_cartesian_indexing versus interpret_indexing
        for p, m in enumerate(mat):
            for spelling in (m, p):
                cell = f"C20/to_cartesian_indexing/dim={dim}/axis={m}/spelling={type(spelling).__name__}"
                try:
                    c = darsia.to_cartesian_indexing(spelling, mat)
                except (ValueError, AssertionError) as e:
                    r.fail(cell, "helper is usable for every axis of every dimension", exception=repr(e))
                    continue
                pos, _ = darsia.interpret_indexing(m, car)
                r.check(c == car[pos], cell, "to_cartesian_indexing names the partner interpret_indexing names", got=c, want=car[pos])
                try:
                    back = darsia.to_matrix_indexing(c, car)
                    r.check(back == m, cell + "/roundtrip", "matrix -> Cartesian -> matrix is the identity", got=back, want=m)
                except (ValueError, AssertionError) as e:
                    r.fail(cell + "/roundtrip", "round trip usable", exception=repr(e))
        for q, c in enumerate(car):
            for spelling in (c, q):
                cell = f"C20/to_matrix_indexing/dim={dim}/axis={c}/spelling={type(spelling).__name__}"
                try:
                    m = darsia.to_matrix_indexing(spelling, car)
                except (ValueError, AssertionError) as e:
                    r.fail(cell, "helper is usable for every axis of every dimension", exception=repr(e))
                    continue
                pos, _ = darsia.interpret_indexing(c, mat)
                r.check(m == mat[pos], cell, "to_matrix_indexing names the partner interpret_indexing names", got=m, want=mat[pos])
                try:
                    back = darsia.to_cartesian_indexing(m, mat)
                    r.check(back == c, cell + "/roundtrip", "Cartesian -> matrix -> Cartesian is the identity", got=back, want=c)
                except (ValueError, AssertionError) as e:
                    r.fail(cell + "/roundtrip", "round trip usable", exception=repr(e))
        # --- displacement vectors follow the same table (float64 sub-voxel vectors, single and batch)
        for p, m in enumerate(mat):
            c, sgn = conv[m]
            for form in ("single", "batch"):
                vec = np.zeros(dim)
                vec[p] = 0.25
                arg = vec.copy() if form == "single" else np.vstack([vec, 2 * vec, -vec]).copy()
                keep = arg.copy()
                got = np.asarray(cs.coordinate_vector(arg), dtype=float)
                want = np.zeros_like(keep)
                want[..., car.index(c)] = sgn * keep[..., p] * vs[p]
                r.check(got.shape == want.shape and np.array_equal(got, want), f"C20/coordinate_vector/dim={dim}/axis={m}/{form}", "a voxel displacement along matrix axis m is a displacement of the same sign convention along its Cartesian partner", got=got, want=want)
                r.check(np.array_equal(arg, keep), f"C20/coordinate_vector/dim={dim}/input-unchanged", "coordinate_vector leaves its argument unchanged")
        # generic vector with all components
        gv = np.array([0.25, -0.5, 1.5][:dim])
        keep = gv.copy()
        got = np.asarray(cs.coordinate_vector(gv), dtype=float)
        want = np.zeros(dim)
        for p, m in enumerate(mat):
            want[car.index(conv[m][0])] = conv[m][1] * keep[p] * vs[p]
        r.check(np.array_equal(got, want) and np.array_equal(gv, keep), f"C20/coordinate_vector/dim={dim}/generic", "all components at once", got=got, want=want)
        r.outcome(("tables", dim))
        return

    if case["kind"] == "kept-systems":
        kept = {}
        for d in case["order"]:
            im, vsd = _img([2, 3, 4][:d], "user")
            kept[d] = (im.coordinatesystem, vsd, im)
        tagk = "order=" + "".join(str(d) for d in case["order"])
        for d, (cs, vsd, im) in kept.items():
            matd, card, conv = "ijk"[:d], "xyz"[:d], CONV[d]
            cell = f"C20/kept-coordinate-system/dim={d}"
            o = np.asarray(cs.coordinate(np.zeros(d, dtype=int)), dtype=float)
            for p_, m in enumerate(matd):
                e = np.zeros(d, dtype=int)
                e[p_] = 1
                step = np.asarray(cs.coordinate(e), dtype=float) - o
                want = np.zeros(d)
                want[card.index(conv[m][0])] = conv[m][1] * vsd[p_]
                r.check(np.array_equal(step, want), cell, "a coordinate system kept while systems of other dimensions were created still moves one voxel step along the conventional axis", order=tagk, axis=m, got=step, want=want)
                back = np.asarray(cs.voxel(o + 0.5 * np.sum([np.eye(d)[card.index(conv[x][0])] * conv[x][1] * vsd[q] for q, x in enumerate(matd)], axis=0) + want), dtype=int)
                r.check(np.array_equal(back.ravel(), e), cell, "... and maps the centre of that voxel back to its index", order=tagk, axis=m, got=back, want=e)
                vec = np.zeros(d)
                vec[p_] = 0.25
                gotv = np.asarray(cs.coordinate_vector(vec.copy()), dtype=float)
                wantv = np.zeros(d)
                wantv[card.index(conv[m][0])] = conv[m][1] * 0.25 * vsd[p_]
                r.check(np.array_equal(gotv, wantv), cell, "... and converts displacement vectors by the table of its own dimension", order=tagk, axis=m, got=gotv, want=wantv)
            fresh = im.coordinatesystem
            V = np.array(list(itertools.product(*[range(n + 1) for n in im.num_voxels])), dtype=int)
            r.check(np.array_equal(np.asarray(cs.coordinate(V)), np.asarray(fresh.coordinate(V))), cell, "the kept system agrees with a freshly requested one on every voxel corner", order=tagk)
        r.outcome(("kept", tuple(case["order"])))
        return

    if case["kind"] == "vtk":
        run_vtk(case, r)
        return

    if case["kind"] == "layout":
        shape, payload = tuple(case["shape"]), case["payload"]
        img, vs = _img(shape, "default", payload)
        arr = img.img
        cs = img.coordinatesystem
        cell = f"C20/matrixToCartesianIndexing/dim={dim}/payload={payload}"
        out = darsia.matrixToCartesianIndexing(arr.copy(), dim)
        conv = CONV[dim]
        want_shape = tuple(shape[mat.index(m)] for c in car for m in mat if conv[m][0] == c) + ((payload,) if payload else ())
        if not r.check(out.shape == want_shape, cell, "Cartesian layout has the extents of the partner axes", got=list(out.shape), want=list(want_shape)):
            return
        mn = np.asarray(cs.min_coordinate, dtype=float)
        vsc = np.array([cs.voxel_size[c] for c in car])
        ok = True
        for v in np.ndindex(*shape):
            centre = np.asarray(cs.coordinate(np.array(v) + 0.5), dtype=float)
            xyz = tuple(np.floor((centre - mn) / vsc).astype(int))
            if not np.array_equal(out[xyz], arr[v]):
                ok = False
                r.fail(cell, "out[x,y,z] is the voxel whose centre has Cartesian cell index (x,y,z) above the minimum corner", voxel=v, xyz=xyz)
                break
        if ok:
            r.ok()
        r.outcome(("layout", shape, payload, out.tolist()))
        if dim == 2:
            back = darsia.cartesianToMatrixIndexing(out.copy())
            r.check(np.array_equal(back, arr), "C20/cartesianToMatrixIndexing/dim=2/inverse", "cartesianToMatrix o matrixToCartesian = id")
            fwd = darsia.matrixToCartesianIndexing(darsia.cartesianToMatrixIndexing(arr.copy()), 2)
            r.check(np.array_equal(fwd, arr), "C20/cartesianToMatrixIndexing/dim=2/inverse", "matrixToCartesian o cartesianToMatrix = id")
        return

    # ---- image-axis: slicing / reducing by Cartesian name == by matrix index
    shape = tuple(case["shape"])
    img, vs = _img(shape, case["origin"])
    cs = img.coordinatesystem
    conv = CONV[dim]
    for p, m in enumerate(mat):
        c = conv[m][0]
        # reduce_axis
        for mode in ("average", "sum"):
            cell = f"C20/reduce_axis/dim={dim}/axis={c}/mode={mode}"
            a = darsia.reduce_axis(img, p, mode=mode)
            b = darsia.reduce_axis(img, c, mode=mode)
            r.check(np.array_equal(a.img, b.img), cell, "reducing by Cartesian name selects the same data as by matrix index")
            r.check(_meta_equal(a, b), cell, "... and the same metadata", a=_meta(a), b=_meta(b))
            want = np.sum(img.img, axis=p) / (shape[p] if mode == "average" else 1)
            r.check(np.array_equal(a.img, want), cell, "reduction runs along the matrix axis addressed")
        # slice at every cut
        for cut in range(shape[p]):
            cell = f"C20/Image.slice/dim={dim}/axis={c}"
            a = img.slice(cut, p)
            want = np.take(img.img, cut, axis=p)
            r.check(np.array_equal(a.img, want), f"C20/Image.slice/dim={dim}/axis={m}", "slice by matrix index is the array slice")
            v = np.zeros(dim)
            v[p] = cut + 0.5
            coord = float(np.asarray(cs.coordinate(v), dtype=float)[car.index(c)])
            try:
                b = img.slice(coord, c)
            except Exception as e:
                r.fail(cell, "slicing by Cartesian name is usable", exception=repr(e), cut=cut, coordinate=coord)
                continue
            r.check(b.img.shape == want.shape and np.array_equal(b.img, want), cell, "slice at a coordinate inside voxel layer c, addressed by Cartesian name, is layer c of the partner matrix axis", cut=cut, coordinate=coord, got=b.img, want=want)
            r.check(_meta_equal(a, b), cell, "... with the same metadata as slicing by index", a=_meta(a), b=_meta(b))
        # cut coordinates handed over as integers (Python int, NumPy integer): every integer coordinate
        # lying strictly inside a voxel layer of this axis selects that layer, like the float of the same value
        o_c = float(np.asarray(img.origin, dtype=float)[car.index(c)])
        sgn = conv[m][1]
        for K in range(int(np.floor(min(o_c, o_c + sgn * shape[p] * vs[p]))) - 1, int(np.ceil(max(o_c, o_c + sgn * shape[p] * vs[p]))) + 2):
            rel = sgn * (K - o_c) / vs[p]
            if abs(rel - round(rel)) < 1e-6 or not (0 <= np.floor(rel) < shape[p]):
                continue
            layer = int(np.floor(rel))
            want = np.take(img.img, layer, axis=p)
            for Kv in (int(K), np.int64(K), np.int32(K), float(K)):
                try:
                    b = img.slice(Kv, c)
                    r.check(b.img.shape == want.shape and np.array_equal(b.img, want), f"C20/Image.slice/dim={dim}/axis={c}/integer-cut", "a cut coordinate given as an integer selects the layer containing that coordinate (as the float of the same value does)", coordinate=K, type=type(Kv).__name__, layer=layer, got=b.img, want=want)
                except Exception as e:
                    r.fail(f"C20/Image.slice/dim={dim}/axis={c}/integer-cut", "a cut coordinate may be given as an integer", coordinate=K, type=type(Kv).__name__, exception=repr(e))
    # ---- the same comparison after the image's origin has been changed in place (the
    # coordinate system has been used above): addressing by Cartesian name must follow
    # the current origin
    import darsia as _d

    new_origin = [7.0, -3.0, 11.0][:dim]
    img.update_metadata(origin=_d.Coordinate(np.array(new_origin)))
    cs = img.coordinatesystem
    for p, m in enumerate(mat):
        c = conv[m][0]
        for cut in range(shape[p]):
            v = np.zeros(dim)
            v[p] = cut + 0.5
            ref_coord = new_origin[car.index(c)] + conv[m][1] * (cut + 0.5) * vs[p]
            coord = float(np.asarray(cs.coordinate(v), dtype=float)[car.index(c)])
            cell = f"C20/Image.slice/after-origin-change/dim={dim}/axis={c}"
            r.check(coord == ref_coord, cell, "the coordinate system follows an in-place change of the origin", got=coord, want=ref_coord)
            try:
                b = img.slice(ref_coord, c)
                want = np.take(img.img, cut, axis=p)
                r.check(b.img.shape == want.shape and np.array_equal(b.img, want), cell, "slicing by Cartesian name after an origin change selects the layer containing the coordinate", cut=cut, coordinate=ref_coord)
            except Exception as e:  # noqa: BLE001
                r.fail(cell, "slicing by Cartesian name is usable after an origin change", exception=repr(e), cut=cut)
    r.outcome(("image-axis", shape, case["origin"]))


def _meta(im):
    return {
        "space_dim": im.space_dim,
        "indexing": im.indexing,
        "dimensions": [float(x) for x in im.dimensions],
        "origin": np.asarray(im.origin, dtype=float).tolist(),
        "scalar": im.scalar,
        "series": im.series,
    }


def _meta_equal(a, b):
    return _meta(a) == _meta(b)


def run_vtk(case, r):
    """darsia.plotting.to_vtk with a recording stand-in for pyevtk (not installed here): the cell
    data handed to the writer must be in Cartesian layout, component by component."""
    import sys
    import types

    import darsia

    dim, shape = case["dim"], tuple(case["shape"])
    rec = {}

    def gridToVTK(path, x, y, z, cellData=None, **kw):
        rec.update(path=path, x=np.asarray(x), y=np.asarray(y), z=np.asarray(z), cellData=cellData)

    pkg, hl = types.ModuleType("pyevtk"), types.ModuleType("pyevtk.hl")
    hl.gridToVTK = gridToVTK
    pkg.hl = hl
    saved = {k: sys.modules.get(k) for k in ("pyevtk", "pyevtk.hl")}
    sys.modules["pyevtk"], sys.modules["pyevtk.hl"] = pkg, hl
    try:
        img, vs = _img(shape, "user")
        n = int(np.prod(shape))
        vec = np.stack([1000.0 * (c + 1) + np.arange(1, n + 1, dtype=float).reshape(shape) for c in range(dim)], axis=-1)
        from mc import env

        path = __import__("os").path.join(env.scratch_dir(), f"c20-vtk-{dim}-{'x'.join(map(str, shape))}")
        darsia.plotting.to_vtk(path, [("s", img, darsia.Format.SCALAR), ("v", vec.copy(), darsia.Format.VECTOR)])
    finally:
        for k, v in saved.items():
            if v is None:
                sys.modules.pop(k, None)
            else:
                sys.modules[k] = v
    cell = f"C20/to_vtk/dim={dim}"
    if not r.check("cellData" in rec and rec["cellData"] is not None, cell + "/called", "the writer is called with cell data"):
        return
    r.nontriv(case)
    cs = img.coordinatesystem
    car = "xyz"[:dim]
    mn = np.asarray(cs.min_coordinate, dtype=float)
    vsc = np.array([cs.voxel_size[c] for c in car])

    def layout(arr):
        """Reference Cartesian layout (padded to 3 axes) from the coordinate system."""
        cshape = [1, 1, 1]
        conv = CONV[dim]
        for p, m in enumerate("ijk"[:dim]):
            cshape[car.index(conv[m][0])] = shape[p]
        out = np.zeros(cshape)
        for v in np.ndindex(*shape):
            centre = np.asarray(cs.coordinate(np.array(v) + 0.5), dtype=float)
            xyz = list(np.floor((centre - mn) / vsc).astype(int)) + [0] * (3 - dim)
            out[tuple(xyz)] = arr[v]
        return out

    s_out = np.asarray(rec["cellData"]["s"])
    want = layout(img.img)
    r.check(s_out.shape == want.shape and np.array_equal(s_out, want), cell + "/scalar", "scalar cell data is placed where the coordinate system puts each voxel", got=s_out, want=want)
    v_out = rec["cellData"]["v"]
    ok = isinstance(v_out, tuple) and len(v_out) == 3
    if ok:
        refs = [layout(vec[..., c]) for c in range(dim)]
        for comp in v_out:
            comp = np.asarray(comp)
            if not np.any(comp):
                continue
            if not any(comp.shape == rf.shape and (np.array_equal(comp, rf) or np.array_equal(comp, -rf)) for rf in refs):
                ok = False
    r.check(ok, cell + "/vector", "every component of vector cell data is placed like scalar data (up to the documented sign / order of components)")
    # grid lines: edges of the voxels along every Cartesian axis
    for a, key in enumerate("xyz"[:dim]):
        edges = np.sort(np.asarray(rec[key], dtype=float))
        ext = want.shape[a]
        wantedges = mn[a] + vsc[a] * np.arange(ext + 1)
        r.check(edges.shape == wantedges.shape and np.allclose(edges, wantedges, rtol=0, atol=1e-12), cell + "/grid", "grid lines are the voxel edges along the Cartesian axis", axis=key, got=edges, want=wantedges)
    r.outcome((case, s_out.tolist()))
