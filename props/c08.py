"""C08 — all linear-solve formulations and back-ends solve the same system (E-state).

`linear_solve` of the real solver objects is driven directly with mixed flux-pressure
systems assembled for every grid shape in the bound; right-hand sides form a basis of the
admissible space, so (the map rhs -> solution being linear) agreement on the basis decides
agreement for every admissible right-hand side.  The history dimension (cached
factorisations, reused buffers) is explored as an explicit-state search over call
sequences on one solver object.
"""

from __future__ import annotations

import collections
import itertools

import numpy as np
import scipy.sparse as sps

from mc.canon import digest

from . import _wass as Wh

ID = "C08"
LEVEL = "model_checking"
EXHAUSTIVE = True
RULE = (
    "shapes: every grid with >= 2 cells and extents 1..N (quick 1..6 / 1..4^2 / 1..3^3; thorough 1..12 / 1..7^2 / 1..5^3 = the C07 range) x 2 face-"
    "weight patterns over {0.1,1,10,100}; formulations/back-ends {(full,direct),(pressure,direct),(flux_reduced,direct),(pressure,amg),(pressure,cg)}; "
    "right-hand sides: complete basis of the admissible space (every flux impulse, every e_i - e_pinned) for direct paths, 4 representatives for "
    "AMG/CG; histories: BFS over call sequences {M1,M2} x {r1,r2} x reuse (reuse only after a solve with the same matrix) to depth 3 on one object, "
    "each output compared with a fresh object; end-to-end: distances of the C04 option lattice across formulations/back-ends. Non-trivial = system "
    "with at least one face; distinct = distinct (shape, weights, formulation, back-end[, sequence])."
)
ASSUMPTIONS = [
    "direct paths agree to 1e-9 relative, iterative back-ends (run with atol=rtol=1e-10) to 1e-6 relative; iterative back-ends only on weights within one decade (AMG stalls otherwise: 'up to solver tolerance')",
    "reuse_solver=True is only defined after a solve with the same matrix, or as the first call on an object (nothing cached yet)",
]

NMAX = {"quick": {1: 6, 2: 4, 3: 3}, "thorough": {1: 12, 2: 7, 3: 5}}
FORMS = [("full", "direct"), ("pressure", "direct"), ("flux_reduced", "direct"), ("pressure", "amg"), ("pressure", "cg")]
# iterative back-ends: a purely RELATIVE tolerance (AMG reads its relative tolerance from "atol",
# CG from "rtol" with an absolute tolerance of 0), so that right-hand sides of any magnitude are
# solved to the same relative accuracy
LSO = {"amg": {"atol": 1e-10, "maxiter": 300}, "cg": {"rtol": 1e-10, "atol": 0.0, "maxiter": 300}, "direct": {}}


def describe(tier):
    return {"max_extent": NMAX[tier], "formulations": FORMS, "history_depth": 3}


def cases(tier):
    out = []
    for dim in (1, 2, 3):
        n = NMAX[tier][dim]
        for s in itertools.product(range(1, n + 1), repeat=dim):
            if int(np.prod(s)) < 2:
                continue
            for wp in (0, 1):
                out.append({"kind": "systems", "shape": list(s), "wp": wp})
    # physically very small voxels (2^-15 of the anisotropic sizes: ~1e-5): the flux block of the
    # system is then of order 1e-14 in 3-D -- any absolute regularisation would show
    for s in [(2, 2, 2), (3, 2, 2), (2, 3), (4,)]:
        for wp in (0, 1):
            out.append({"kind": "systems", "shape": list(s), "wp": wp, "vs": "tiny"})
    for s in [(3,), (2, 3), (3, 1), (2, 2, 2)] + ([(4, 3), (1, 5), (3, 2, 2)] if tier == "thorough" else []):
        for form in FORMS:
            out.append({"kind": "history", "shape": list(s), "form": list(form)})
    for s in [(5,), (3, 4), (4, 1), (2, 2, 2)]:
        for mk in ("corner-to-corner", "dense", "sparse"):
            for method in ("newton", "bregman"):
                out.append({"kind": "end-to-end", "shape": list(s), "mass": mk, "method": method})
    # the iterative back-ends on systems large enough for a multilevel preconditioner (144 / 150
    # cells), with the tolerances spelled with an explicit zero (absolute-only / relative-only stopping)
    for s in [(12, 12), (6, 5, 5)]:
        for form in (("pressure", "cg"), ("pressure", "amg"), ("flux_reduced", "amg"), ("flux_reduced", "cg")):
            out.append({"kind": "tolerance-spelling", "shape": list(s), "form": list(form)})
    out.sort(key=lambda c: (c["kind"] != "systems", int(np.prod(c["shape"]))))
    return out


def weights(nf, wp, decade=False):
    vals = [1.0, 2.0, 4.0, 8.0] if decade else [0.1, 1.0, 10.0, 100.0]
    return np.array([vals[(3 * f + wp * (1 + f // 2)) % 4] for f in range(nf)])


def solver(shape, vs, form):
    import darsia.measure.wasserstein as W

    grid = Wh.make_grid(shape, vs)
    o = {"formulation": form[0], "linear_solver": form[1], "linear_solver_options": dict(LSO[form[1]])}
    return W.WassersteinDistanceNewton(grid, None, o), grid


def assemble(obj, w):
    """System matrix as the solvers assemble it (from the object's own blocks)."""
    return sps.bmat(
        [
            [sps.diags(w) @ obj.mass_matrix_faces, -obj.div.T, None],
            [obj.div, None, -obj.pressure_constraint.T],
            [None, obj.pressure_constraint, None],
        ],
        format="csc",
    )


def assemble_ref(ref, w, pinned):
    """Independent assembly of the full mixed system (explicit loops, dense)."""
    nf, nc = ref.nf, ref.nc
    n = nf + nc + 1
    A = np.zeros((n, n))
    for f in range(nf):
        A[f, f] = w[f] * ref.vol
        a = ref.area[ref.axis_of[f]]
        c0, c1 = ref.conn[f]
        A[nf + c0, f] += a
        A[nf + c1, f] -= a
        A[f, nf + c0] -= a
        A[f, nf + c1] += a
    A[nf + pinned, n - 1] = -1.0
    A[n - 1, nf + pinned] = 1.0
    return A


def rhs_basis(nf, nc, pinned):
    n = nf + nc + 1
    for f in range(nf):
        b = np.zeros(n)
        b[f] = 1.0
        yield ("flux", f), b
    for c in range(nc):
        if c == pinned:
            continue
        b = np.zeros(n)
        b[nf + c] = 1.0
        b[nf + pinned] = -1.0
        yield ("mass", c), b


def shape_cls(shape):
    return "single-cell-axis" if min(shape) == 1 else "generic"


def run_systems(case, r):
    shape, wp = tuple(case["shape"]), case["wp"]
    dim = len(shape)
    vs = Wh.voxel_sizes(dim, "aniso")
    if case.get("vs") == "tiny":
        vs = [v * 2.0**-15 for v in vs]
    # non-initial process state: solver objects on a grid of the SAME shape but OTHER voxel sizes have
    # been built and used before (state kept between objects, e.g. setups cached per shape, shows up)
    for form in (("pressure", "direct"), ("flux_reduced", "direct"), ("full", "direct")):
        try:
            o0, g0 = solver(shape, Wh.voxel_sizes(dim, "unit"), form)
            b0 = np.zeros(g0.num_faces + g0.num_cells + 1)
            if g0.num_faces:
                b0[0] = 1.0
            o0.linear_solve(assemble(o0, np.ones(g0.num_faces)), b0, np.zeros_like(b0))
        except Exception:  # noqa: BLE001  (reported by the main loop below on the grid under test)
            pass
    objs = {}
    for form in FORMS:
        try:
            objs[form] = solver(shape, vs, form)
        except Exception as e:  # noqa: BLE001
            r.fail(f"C08/usable/{form[0]}-{form[1]}/construct", "every documented formulation / back-end can be constructed", exception=repr(e)[:300], shape=shape)
    if ("full", "direct") not in objs:
        return
    obj0, grid = objs[("full", "direct")]
    ref = Wh.Ref(grid)
    nf, nc = ref.nf, ref.nc
    pinned = int(obj0.constrained_cell_flat_index)
    r.check(0 <= pinned < nc, f"C08/pinned-cell/dim={dim}", "the pinned cell is a cell of the grid", pinned=pinned)
    if nf:
        r.nontriv((shape, wp))
    for decade in (False, True):
        w = weights(nf, wp, decade)
        Aref = assemble_ref(ref, w, pinned)
        basis = list(rhs_basis(nf, nc, pinned))
        reps = [basis[0], basis[len(basis) // 2], basis[-1]] if basis else []
        if basis:
            dense = sum(b for _, b in basis[: min(6, len(basis))])
            reps.append((("dense", 0), dense))
        sols = {}
        for form, (obj, _) in objs.items():
            iterative = form[1] in ("amg", "cg")
            if iterative != decade:
                if not (decade and form == ("full", "direct")):
                    continue
            M = assemble(obj, w)
            r.check(np.allclose(M.toarray(), Aref, rtol=0, atol=0) if M.shape == Aref.shape else False, f"C08/assembly/dim={dim}/{shape_cls(shape)}", "the system assembled from the solver's own blocks equals the independently assembled mixed system")
            todo = reps if (iterative or decade) else basis
            for name, b in todo:
                cell = f"C08/solve/{form[0]}-{form[1]}/dim={dim}/{shape_cls(shape)}"
                try:
                    Mc, bc = M.copy(), b.copy()
                    x, _ = obj.linear_solve(Mc, bc, np.zeros_like(b))
                except Exception as e:  # noqa: BLE001
                    r.fail(cell + "/usable", "the formulation solves every admissible system", exception=repr(e)[:300], shape=shape, rhs=name)
                    break
                x = np.asarray(x, dtype=float)
                # the caller's system is still the original one afterwards
                r.check(np.array_equal(bc, b) and (abs(Mc - M)).nnz == 0, f"C08/solve/{form[0]}-{form[1]}/system-unchanged", "linear_solve leaves the matrix and the right-hand side it was given unchanged", rhs=name, shape=shape)
                # the same system at a very small magnitude (rhs x 2^-40 ~ 1e-12): the solve is
                # linear, so the solution scales along - to the same RELATIVE accuracy
                if name[0] in ("mass", "dense") or name == basis[0][0]:
                    al = 2.0**-40
                    try:
                        xs, _ = obj.linear_solve(M.copy(), al * b, np.zeros_like(b))
                        xs = np.asarray(xs, dtype=float)
                        tols = 1e-6 if iterative else 1e-9
                        r.check(float(np.max(np.abs(xs - al * x))) <= tols * al * max(1.0, float(np.max(np.abs(x)))), f"C08/solve/{form[0]}-{form[1]}/tiny-rhs", "a right-hand side of tiny magnitude is solved to the same relative accuracy (solution scales linearly)", rhs=name, shape=shape, err=float(np.max(np.abs(xs - al * x))) / al)
                    except Exception as e:  # noqa: BLE001
                        r.fail(f"C08/solve/{form[0]}-{form[1]}/tiny-rhs", "a right-hand side of tiny magnitude is solved", exception=repr(e)[:300], shape=shape)
                tol = 1e-6 if iterative else 1e-9
                resid = float(np.max(np.abs(Aref @ x - b)))
                scale = max(1.0, float(np.max(np.abs(Aref) @ np.abs(x))))
                r.check(resid <= tol * scale, cell + "/residual", "the returned solution satisfies the original full system", shape=shape, rhs=name, residual=resid, wp=wp)
                r.check(abs(x[nf + pinned]) <= tol * max(1.0, float(np.max(np.abs(x)))), cell + "/pinned", "the pressure vanishes at the pinned cell", value=float(x[nf + pinned]))
                sols[(form, name)] = x
        # cross-formulation agreement, component-wise
        base = ("full", "direct")
        for (form, name), x in sols.items():
            if form == base or (base, name) not in sols:
                continue
            x0 = sols[(base, name)]
            tol = 1e-6 if form[1] in ("amg", "cg") else 1e-9
            sc = max(1.0, float(np.max(np.abs(x0))))
            for comp, sl in (("flux", slice(0, nf)), ("pressure", slice(nf, nf + nc)), ("multiplier", slice(nf + nc, None))):
                err = float(np.max(np.abs(x[sl] - x0[sl]))) if x[sl].size else 0.0
                r.check(err <= tol * sc, f"C08/agreement/{form[0]}-{form[1]}/{comp}/dim={dim}/{shape_cls(shape)}", "formulation / back-end yields the same flux, pressure and multiplier as the full direct solve", shape=shape, rhs=name, err=err, wp=wp)
    # ---- one caller-owned options dict (library default tolerances) shared by an AMG and then a CG
    # object; both must solve a right-hand side of tiny magnitude to relative accuracy
    if nf and wp == 0:
        import darsia.measure.wasserstein as W

        w = weights(nf, 0, True)
        Aref = assemble_ref(ref, w, pinned)
        basis1 = list(rhs_basis(nf, nc, pinned))
        b = sum(bb for _, bb in basis1[: min(6, len(basis1))]) * 2.0**-40
        shared_lso = {"maxiter": 300}
        xs = {}
        for backend in ("amg", "cg", "direct"):
            try:
                ob = W.WassersteinDistanceNewton(Wh.make_grid(shape, vs), None, {"formulation": "pressure", "linear_solver": backend, "linear_solver_options": shared_lso})
                x, _ = ob.linear_solve(assemble(ob, w), b.copy(), np.zeros_like(b))
                xs[backend] = np.asarray(x, dtype=float)
            except Exception as e:  # noqa: BLE001
                r.fail(f"C08/shared-options/pressure-{backend}", "back-ends built from one shared options dict solve the system", exception=repr(e)[:300], shape=shape)
        if "direct" in xs:
            sc = float(np.max(np.abs(xs["direct"])))
            for backend in ("amg", "cg"):
                if backend in xs:
                    err = float(np.max(np.abs(xs[backend] - xs["direct"])))
                    r.check(err <= 1e-4 * sc, f"C08/shared-options/pressure-{backend}", "with one shared options dict (default tolerances) the iterative back-end agrees with the direct solve to 1e-4 relative, also for a tiny right-hand side", err_rel=err / sc if sc else err, shape=shape)
        r.check(shared_lso == {"maxiter": 300}, "C08/shared-options/dict-unchanged", "the caller's linear_solver_options dict is not modified", got=shared_lso)
    r.outcome((shape, wp, pinned))


def run_history(case, r):
    shape, form = tuple(case["shape"]), tuple(case["form"])
    dim = len(shape)
    vs = Wh.voxel_sizes(dim, "aniso")
    iterative = form[1] in ("amg", "cg")

    def fresh():
        return solver(shape, vs, form)[0]

    obj = fresh()
    ref = Wh.Ref(obj.grid)
    nf, nc = ref.nf, ref.nc
    pinned = int(obj.constrained_cell_flat_index)
    Ms = [assemble(obj, weights(nf, 0, iterative)), assemble(obj, weights(nf, 1, iterative))]
    basis = [b for _, b in rhs_basis(nf, nc, pinned)]
    rs = [basis[0], sum(basis)]
    ops = [(m, k, reuse) for m in (0, 1) for k in (0, 1) for reuse in (False, True)]

    def call(o, op):
        m, k, reuse = op
        x, _ = o.linear_solve(Ms[m].copy(), rs[k].copy(), np.zeros_like(rs[k]), reuse_solver=reuse)
        return np.asarray(x, dtype=float)

    table = {(m, k): call(fresh(), (m, k, False)) for m in (0, 1) for k in (0, 1)}
    cell = f"C08/history/{form[0]}-{form[1]}"
    tol = 1e-8 if iterative else 1e-12

    # a state is the history (live SuperLU/pyamg handles do not deep-copy): replay on a fresh object
    def hidden(o):
        d = {k: v for k, v in vars(o).items() if k in ("fully_reduced_jacobian", "reduced_matrix", "fully_reduced_matrix", "reduced_rhs", "fully_reduced_rhs", "matrix_flux_inv")}
        return digest(d)

    seen = set()
    frontier = collections.deque([[]])
    transitions = 0
    while frontier:
        hist = frontier.popleft()
        last_m = hist[-1][0] if hist else None
        for op in ops:
            if op[2] and hist and last_m != op[0]:
                continue  # reuse is only defined after a solve with the same matrix -- or as the very first
                # call on an object (nothing to reuse yet: the library then sets the solver up)
            o = fresh()
            kept = [call(o, h) for h in hist]  # the arrays the caller received and still holds
            snap = [k.copy() for k in kept]
            x = call(o, op)
            transitions += 1
            r.check(all(np.array_equal(k, s0) for k, s0 in zip(kept, snap)), cell + "/results-kept", "a later solve leaves the solutions returned by earlier solves on the same object unchanged", history=hist, op=op, changed=[i for i, (k, s0) in enumerate(zip(kept, snap)) if not np.array_equal(k, s0)])
            want = table[(op[0], op[1])]
            sc = max(1.0, float(np.max(np.abs(want))))
            r.check(float(np.max(np.abs(x - want))) <= tol * sc, cell, "a solve on a re-used solver object (cached factorisation / buffers) returns what a fresh object returns", history=hist, op=op, err=float(np.max(np.abs(x - want))))
            nh = hist + [op]
            key = (hidden(o), op[0])
            if len(nh) < 3 and (key not in seen or True):
                seen.add(key)
                frontier.append(nh)
            else:
                seen.add(key)
    r.count("states", len(seen) + 1)
    r.count("transitions", transitions)
    r.count("traces", transitions)
    r.nontriv(case)
    r.outcome((case, len(seen)))
    r.notes.setdefault("samples", [{"shape": shape, "formulation": form, "sequence": [[0, 0, False], [0, 1, True], [1, 0, False]]}])


def run_end_to_end(case, r):
    from . import c04

    shape, mk, method = tuple(case["shape"]), case["mass"], case["method"]
    dim = len(shape)
    vs = Wh.voxel_sizes(dim, "aniso")
    m1, m2 = Wh.mass_pairs(shape, mk)
    variants = [(l1, mob, None) for l1, mob in itertools.product(Wh.L1_MODES, Wh.MOBILITY_MODES)]
    if method == "bregman":
        # a penalty parameter other than the one of the initial Darcy solve (L_init = 1)
        variants += [("RAVIART_THOMAS", "CELL_BASED", 4.0), ("RAVIART_THOMAS", "FACE_BASED", 0.25)]
    for l1, mob, L in variants:
        res = {}
        for form in FORMS:
            o = c04.opts_for(method, l1, mob, form, 0, 6, None if L is None else {"L": L})
            out = Wh.run_solver(method, shape, vs, m1, m2, o)
            if out.exc is not None:
                r.fail(f"C08/end-to-end/usable/{form[0]}-{form[1]}", "every formulation / back-end completes a distance computation", exception=repr(out.exc)[:300], cfg=(shape, mk, method, l1, mob, L))
                continue
            res[form] = out
        if ("full", "direct") not in res:
            continue
        d0 = res[("full", "direct")].distance
        ill = max(o.weight_ratio for o in res.values()) > 1e8
        for form, out in res.items():
            if form == ("full", "direct"):
                continue
            tol = 1e-5 if form[1] in ("amg", "cg") else 1e-8
            cond = "ill-conditioned" if ill else "well-conditioned"
            r.check(abs(out.distance - d0) <= tol * max(1.0, abs(d0)), f"C08/end-to-end/{method}/{form[0]}-{form[1]}/{cond}", "the choice of formulation or back-end changes no computed distance beyond tolerance", d=out.distance, d_full=d0, cfg=(shape, mk, method, l1, mob, L), weight_ratio=max(o.weight_ratio for o in res.values()))
        r.nontriv((shape, mk, method, l1, mob, L))
        r.count("transitions", len(res))
        r.count("traces", len(res))
    r.outcome(case)


def run_tolerance_spelling(case, r):
    import darsia.measure.wasserstein as W

    shape, form = tuple(case["shape"]), tuple(case["form"])
    dim = len(shape)
    vs = Wh.voxel_sizes(dim, "aniso")
    spellings = {
        "cg": [("rtol=0,atol=1e-11", {"rtol": 0, "atol": 1e-11, "maxiter": 500}), ("rtol=0.0,atol=1e-11", {"rtol": 0.0, "atol": 1e-11, "maxiter": 500}), ("rtol=1e-12,atol=0", {"rtol": 1e-12, "atol": 0, "maxiter": 500})],
        "amg": [("atol=1e-11", {"atol": 1e-11, "maxiter": 500}), ("atol=1e-11,rtol=0", {"atol": 1e-11, "rtol": 0, "maxiter": 500})],
    }[form[1]]
    direct, grid = solver(shape, vs, ("full", "direct"))
    ref = Wh.Ref(grid)
    nf, nc = ref.nf, ref.nc
    pinned = int(direct.constrained_cell_flat_index)
    w = weights(nf, 0, True)
    M = assemble(direct, w)
    basis = [b for _, b in rhs_basis(nf, nc, pinned)]
    rhs = sum((1.0 + (k % 5)) * b for k, b in enumerate(basis))
    x0, _ = direct.linear_solve(M.copy(), rhs.copy(), np.zeros_like(rhs))
    x0 = np.asarray(x0, dtype=float)
    sc = float(np.max(np.abs(x0)))
    for name, lso in spellings:
        grid2 = Wh.make_grid(shape, vs)
        obj = W.WassersteinDistanceNewton(grid2, None, {"formulation": form[0], "linear_solver": form[1], "linear_solver_options": dict(lso)})
        cell = f"C08/large-systems/{form[0]}-{form[1]}"
        try:
            x, _ = obj.linear_solve(M.copy(), rhs.copy(), np.zeros_like(rhs))
        except Exception as e:  # noqa: BLE001
            r.fail(cell + "/usable", "every accepted formulation / back-end pair completes a solve (also with an explicit zero among its tolerances)", options=name, exception=repr(e)[:300])
            continue
        err = float(np.max(np.abs(np.asarray(x, dtype=float) - x0))) / sc
        r.check(err <= 1e-8, cell + "/accuracy", "with a tolerance of 1e-11 / 1e-12 requested (the other one explicitly zero) the iterative solution agrees with the direct one to 1e-8", options=name, err_rel=err, shape=shape)
        r.nontriv((shape, form, name))
    r.count("transitions", len(spellings) + 1)
    r.count("traces", len(spellings) + 1)
    r.outcome(case)


def run_case(case, r):
    if case["kind"] == "tolerance-spelling":
        return run_tolerance_spelling(case, r)
    {"systems": run_systems, "history": run_history, "end-to-end": run_end_to_end}[case["kind"]](case, r)
