"""C18 — saved images and corrections reload to equivalent objects (E-lattice, exhaustive).

Four families of cases, each executed on the real code with real files in a scratch
directory:

* ``npz``     Image.save -> darsia.imread over the complete metadata lattice.  The data are
              provenance coded (every element distinct, high and low bytes populated, float
              payloads contain -0.0 and a huge value) and compared *bitwise*; the reloaded
              metadata are compared strictly (type, dtype, value) with the metadata of the
              saved object AND with a reference built from the case descriptor alone.
* ``bytes``   darsia.imread_from_bytes on PNG / TIFF byte strings produced by two independent
              encoders: OpenCV (channels reversed by hand) and a hand-written baseline
              PNG / TIFF writer that stores RGB natively.
* ``optical`` OpticalImage.write -> darsia.imread for lossless formats; the reference is
              ``skimage.img_as_float`` of the RGB view of the original.
* ``corr``    every correction with save/load: build, (optionally use), save, reload through
              darsia.read_correction, apply original and reloaded to the same probes from
              the same RNG state; outputs must be bit identical (array, dtype, result type,
              metadata).

No exception is a legitimate refusal inside this space: every input is one the API documents
as supported, so each stage (save / read / apply) that raises is a violation of its own cell.
"""

from __future__ import annotations

import copy
import datetime as dt
import os
import struct
import zlib

import numpy as np

ID = "C18"
LEVEL = "exploration"
EXHAUSTIVE = True
RULE = (
    "npz: space_dim 1..3 x series x scalar x dtype {bool,uint8,uint16,float32,float64} x time info {none, relative time, dates, "
    "dates+reference, dates+reference+explicit time} x name {None,str} x origin {default,custom} x shape form {base, extents not recovered from voxel size x count (5,11,35 voxels over 1.7,0.1,0.7; one-slice series)} (thorough: + {all-ones, "
    "thin} x range form {(3,),(1,),(2,2),()}), two save/load cycles (Path, str) + a second generation; bytes: {png,tiff} x {8,16} bit x "
    "{grey, single channel, colour} x shapes x encoders {cv2, hand-written (tiff: little/big endian)} x kwargs {none, dimensions+name}; "
    "optical: {uint8,uint16} x suffix {png,tif,(tiff)} x colour space {RGB,BGR} x shapes x payload {provenance, extremes} incl. "
    "read->write->read; corrections: TypeCorrection x 7 data types; DriftCorrection active x roi form {none, slices, points, voxels} x padding {0, 0.2} x base form (3 probes, one roi-sensitive composite); "
    "CurvatureCorrection config variant x constructor kwargs x cache {cold,warm} x use_cache; IlluminationCorrection colour space x "
    "interpolation x rescale x probe dtype; ColorCorrection active x whitebalancing x colorbalancing x balancing x clip x base form x roi "
    "form; each applied to 2-3 probes. Non-trivial = every case (payloads are never constant); distinct = distinct case descriptor."
)
ASSUMPTIONS = [
    "JPEG (lossy), DICOM and VTU readers are outside the property",
    "optical write/read is checked for colour spaces RGB and BGR (HSV <-> BGR conversion in 8/16 bit is itself lossy)",
    "OpenCV global RNG is re-seeded identically before the original and the reloaded correction are applied",
    "reference for written-then-read colours is skimage.img_as_float (third party, not under test)",
]

DTYPES = ["bool", "uint8", "uint16", "float32", "float64"]
TIMEINFO = ["none", "time", "dates", "dates+ref", "both"]
SPACE_SHAPE = {"base": (2, 3, 4), "ones": (1, 1, 1), "thin": (1, 3, 2), "ulp": (5, 11, 35)}
TIME_NUM = {"base": 3, "ones": 1, "thin": 2, "ulp": 1}
DIMS = [1.5, 0.5, 2.0]
# extents that are NOT recovered from (extent / n) * n in floating point: a round trip must carry the
# stored extent, not one recomputed from the voxel size (series of this form have one slice)
DIMS_BY_FORM = {"ulp": [1.7, 0.1, 0.7]}
assert all((d / n) * n != d for d, n in zip(DIMS_BY_FORM["ulp"], SPACE_SHAPE["ulp"]))
CUSTOM_ORIGIN = [3.0, -2.0, 5.5]
BYTE_SHAPES = {"quick": [(1, 1), (2, 3), (5, 4)], "thorough": [(1, 1), (2, 3), (5, 4), (1, 7), (7, 1), (3, 3), (16, 16)]}
OPT_SHAPES = {"quick": [(1, 1), (2, 3), (5, 4)], "thorough": [(1, 1), (2, 3), (5, 4), (16, 9)]}
TYPE_NAMES = ["bool", "float", "float32", "float64", "int", "uint8", "uint16"]
CURV_CONFIGS = ["empty", "init", "crop", "bulge", "stretch", "crop+stretch", "all", "crop-voxels", "crop-voxels+stretch"]
CURV_KW = ["default", "order0", "order3", "resize"]
ILLUM_SPACES = ["rgb", "rgb-scalar", "lab", "lab-scalar", "hsl", "hsl-scalar", "gray"]


def describe(tier):
    return {
        "npz": {"space_dim": [1, 2, 3], "dtypes": DTYPES, "time_info": TIMEINFO, "shape_forms": ["base"] if tier == "quick" else list(SPACE_SHAPE)},
        "bytes_shapes": BYTE_SHAPES[tier],
        "optical_shapes": OPT_SHAPES[tier],
        "corrections": ["TypeCorrection", "DriftCorrection", "CurvatureCorrection", "IlluminationCorrection", "ColorCorrection"],
    }


# ------------------------------------------------------------------------------------ cases
def cases(tier):
    out = []
    # ---- npz lattice
    forms = ["base", "ulp"] if tier == "quick" else ["base", "ulp", "ones", "thin"]
    for form in forms:
        for dim in (1, 2, 3):
            for series in (False, True):
                for scalar in (True, False):
                    ranges = [None] if scalar else ([[3]] if tier == "quick" else [[3], [1], [2, 2], []])
                    for rng in ranges:
                        for dtype in DTYPES:
                            for ti in TIMEINFO:
                                for name in (None, "img-A"):
                                    for origin in ("default", "custom"):
                                        out.append(
                                            {"kind": "npz", "dim": dim, "series": series, "scalar": scalar, "range": rng, "dtype": dtype, "time": ti, "name": name, "origin": origin, "form": form}
                                        )
    # ---- byte strings
    for fmt in ("png", "tiff"):
        encs = ["cv2", "own"] if fmt == "png" else (["cv2", "own-le"] + ([] if tier == "quick" else ["own-be"]))
        for bits in (8, 16):
            for shape in BYTE_SHAPES[tier]:
                for enc in encs:
                    for layout in ("grey", "single", "colour"):
                        if layout == "single" and enc != "cv2":
                            continue  # the file formats have no notion of (h,w,1): same bytes as grey
                        for kw in ("none", "dims"):
                            out.append({"kind": "bytes", "fmt": fmt, "bits": bits, "layout": layout, "shape": list(shape), "enc": enc, "kw": kw})
    # ---- optical write / read
    for dtype in ("uint8", "uint16"):
        for suffix in (".png", ".tif") + (() if tier == "quick" else (".tiff", ".PNG")):
            for cs in ("RGB", "BGR"):
                for shape in OPT_SHAPES[tier]:
                    for payload in ("provenance", "extremes"):
                        out.append({"kind": "optical", "dtype": dtype, "suffix": suffix, "color_space": cs, "shape": list(shape), "payload": payload})
    # ---- corrections
    for t in TYPE_NAMES:
        out.append({"kind": "corr", "cls": "TypeCorrection", "data_type": t})
    for active in (True, False):
        for roi in ("none", "slices", "list", "voxels"):
            for padding in (0.0, 0.2):
                for base in ("image", "array"):
                    out.append({"kind": "corr", "cls": "DriftCorrection", "active": active, "roi": roi, "padding": padding, "base": base})
                    if padding == 0.0 and roi in ("none", "slices"):
                        # the public `active` switch is flipped after construction: what is saved is the
                        # object as it is, not as it was configured
                        out.append({"kind": "corr", "cls": "DriftCorrection", "active": active, "roi": roi, "padding": padding, "base": base, "flip_active": True})
    for cfg in CURV_CONFIGS:
        for kw in CURV_KW:
            for cache in ("cold", "warm"):
                for use_cache in (False, True):
                    out.append({"kind": "corr", "cls": "CurvatureCorrection", "config": cfg, "kw": kw, "cache": cache, "use_cache": use_cache})
    for cs in ILLUM_SPACES:
        for interp in ("quartic", "rbf") + (() if tier == "quick" else ("illumination", "linear")):
            for rescale in (False, True):
                for probe_dtype in ("float", "uint"):
                    out.append({"kind": "corr", "cls": "IlluminationCorrection", "colorspace": cs, "interpolation": interp, "rescale": rescale, "probes": probe_dtype})
    for active in (True, False):
        for wb in (True, False):
            for cb in ("affine", "linear"):
                for bal in ("darsia", "colour"):
                    for clip in (False, True):
                        for base in ("none", "checker", "image"):
                            for roi in ("list", "array"):
                                out.append(
                                    {"kind": "corr", "cls": "ColorCorrection", "active": active, "whitebalancing": wb, "colorbalancing": cb, "balancing": bal, "clip": clip, "base": base, "roi": roi}
                                )
    return out


# ---------------------------------------------------------------------------------- helpers
_COUNTER = [0]


def _scratch() -> str:
    from mc import env

    d = os.path.join(env.scratch_dir(), f"c18-{os.getpid()}")
    os.makedirs(d, exist_ok=True)
    return d


def _fresh(name: str) -> str:
    """Scratch file name.  Image files deliberately RE-USE one name per process and role (files are
    overwritten with other content again and again, as users do): a reader has to return what the
    file holds now.  Cache files of corrections get unique names."""
    if name.startswith("curvature-cache"):
        _COUNTER[0] += 1
        return os.path.join(_scratch(), f"{_COUNTER[0]:06d}-{name}")
    return os.path.join(_scratch(), f"reused-{os.getpid()}-{name}")


def _rm(*paths) -> None:
    for p in paths:
        try:
            os.remove(str(p))
        except OSError:
            pass


def same(a, b) -> bool:
    """Strict structural identity: same types, arrays by dtype/shape/bytes, floats by value."""
    if isinstance(a, np.ndarray) or isinstance(b, np.ndarray):
        return (
            isinstance(a, np.ndarray)
            and isinstance(b, np.ndarray)
            and type(a) is type(b)
            and a.dtype == b.dtype
            and a.shape == b.shape
            and np.ascontiguousarray(a).tobytes() == np.ascontiguousarray(b).tobytes()
        )
    if type(a) is not type(b):
        return False
    if isinstance(a, dict):
        return list(a.keys()) == list(b.keys()) and all(same(a[k], b[k]) for k in a)
    if isinstance(a, (list, tuple)):
        return len(a) == len(b) and all(same(x, y) for x, y in zip(a, b))
    if isinstance(a, float):
        return a == b or (a != a and b != b)
    return a == b


def bits_equal(a: np.ndarray, b: np.ndarray) -> bool:
    return a.dtype == b.dtype and a.shape == b.shape and np.ascontiguousarray(a).tobytes() == np.ascontiguousarray(b).tobytes()


def show(x):
    if isinstance(x, np.ndarray):
        return {"type": type(x).__name__, "dtype": str(x.dtype), "value": x.tolist() if x.size <= 24 else x.ravel()[:12].tolist()}
    if isinstance(x, (list, tuple)):
        return [show(v) for v in x]
    if isinstance(x, dict):
        return {k: show(v) for k, v in x.items()}
    if isinstance(x, (dt.datetime, type)):
        return repr(x)
    return x


def stage(r, cell, clause, fn, **detail):
    """Run one stage of a round trip; an exception is a violation of that stage's cell."""
    try:
        return True, fn()
    except Exception as e:  # noqa: BLE001 - nothing in the enumerated space may be refused
        import traceback

        r.fail(cell, clause, exception=f"{type(e).__name__}: {e}", traceback=traceback.format_exc()[-900:], **detail)
        return False, None


def payload(shape, dtype: str) -> np.ndarray:
    """Provenance-coded data: element k of the flattened array is a function of k only."""
    n = int(np.prod(shape)) if len(shape) else 1
    k = np.arange(n, dtype=np.int64)
    if dtype == "bool":
        a = ((k * 5 + k // 3) % 3 == 0) | (k == 0)
        if n > 1:
            a[1] = False
    elif dtype == "uint8":
        a = (k * 37 + 11) % 256
    elif dtype == "uint16":
        a = (k * 1031 + 263) % 65536
    else:
        a = (k - 5).astype(np.float64) * 0.375
        a[0] = -0.0
        if n > 1:
            a[-1] = 3e38 if dtype == "float32" else 1.5e300
        if n > 2:
            a[n // 2] = 2.0**-20
    return np.ascontiguousarray(a.astype(dtype).reshape(tuple(shape)))


# ----------------------------------------------------------------------------------- npz
T0 = dt.datetime(2021, 3, 4, 5, 6, 7)
T_REF = dt.datetime(2021, 3, 4, 5, 0, 0)
OFFS = [0.0, 90.0, 3600.5]  # seconds after T0 (a fraction of a second included)


def _npz_build(case):
    """Constructor keywords and the expected metadata, derived from the descriptor only."""
    dim, series, scalar = case["dim"], case["series"], case["scalar"]
    form = case["form"]
    sshape = SPACE_SHAPE[form][:dim]
    nt = TIME_NUM[form]
    shape = tuple(sshape) + ((nt,) if series else ()) + (() if scalar else tuple(case["range"]))
    dims = [DIMS_BY_FORM.get(form, DIMS)[a] for a in range(dim)]
    kw = {"space_dim": dim, "series": series, "scalar": scalar, "dimensions": list(dims)}
    exp = {"space_dim": dim, "indexing": "ijk"[:dim], "dimensions": list(dims), "series": series, "scalar": scalar, "name": case["name"]}
    if case["name"] is not None:
        kw["name"] = case["name"]
    if case["origin"] == "custom":
        kw["origin"] = list(CUSTOM_ORIGIN[:dim])
        exp["origin"] = list(CUSTOM_ORIGIN[:dim])
    else:
        # voxel (0,..,0) sits at the top (2-D: y = height; 3-D: z = dims[0], y = dims[2])
        exp["origin"] = [0.0] if dim == 1 else ([0.0, dims[0]] if dim == 2 else [0.0, dims[2], dims[0]])
    dates = [T0 + dt.timedelta(seconds=s) for s in OFFS[:nt]]
    explicit = [10, 20.5, 41.0][:nt]  # deliberately NOT what the dates imply
    ti = case["time"]
    date = time = ref = None
    if ti in ("dates", "dates+ref", "both"):
        date = dates if series else dates[0]
    if ti in ("dates+ref", "both"):
        ref = T_REF
    if ti in ("time", "both"):
        time = explicit if series else 20.5
    if date is not None:
        kw["date"] = copy.copy(date)
    if ref is not None:
        kw["reference_date"] = ref
    if time is not None:
        kw["time"] = copy.copy(time)
    # expected temporal metadata
    exp["date"] = date if date is not None else ([None] * nt if series else None)
    exp_ref = ref if ref is not None else (None if date is None else (dates[0]))
    exp["reference_date"] = exp_ref
    if time is not None:
        exp["time"] = time
    elif date is not None:
        exp["time"] = [(d - exp_ref).total_seconds() for d in dates] if series else (dates[0] - exp_ref).total_seconds()
    else:
        exp["time"] = [None] * nt if series else None
    return shape, kw, exp


def _timeclass(case):
    return f"series={int(case['series'])}/time={case['time']}"


def _meta_cell(case, key):
    if key in ("date", "time", "reference_date"):
        return f"C18/npz/meta:{key}/{_timeclass(case)}"
    if key == "origin":
        return f"C18/npz/meta:origin/dim={case['dim']}/origin={case['origin']}"
    if key == "dimensions":
        return f"C18/npz/meta:dimensions/dim={case['dim']}"
    if key == "name":
        return f"C18/npz/meta:name/name={'none' if case['name'] is None else 'str'}"
    return f"C18/npz/meta:{key}"


def _loose_equal(got, want) -> bool:
    """Value equality against the descriptor-derived expectation (numeric type agnostic)."""
    if isinstance(want, list):
        if isinstance(got, np.ndarray):
            got = got.tolist()
        return isinstance(got, (list, tuple)) and len(got) == len(want) and all(_loose_equal(g, w) for g, w in zip(got, want))
    if want is None:
        return got is None
    if isinstance(want, (dt.datetime, str, bool)):
        return type(got) is type(want) and got == want
    if isinstance(want, (int, float)):
        return isinstance(got, (int, float, np.integer, np.floating)) and not isinstance(got, bool) and float(got) == float(want)
    return got == want


def run_npz(case, r):
    import darsia

    shape, kw, exp = _npz_build(case)
    data = payload(shape, case["dtype"])
    pristine = data.copy()
    img = darsia.Image(data, **copy.deepcopy(kw))
    meta0 = img.metadata()
    r.nontriv(case)
    dcls = f"dtype={case['dtype']}/scalar={int(case['scalar'])}"
    tcls = f"dim={case['dim']}/{_timeclass(case)}"

    def compare(loaded, tag):
        r.check(type(loaded) is darsia.Image or isinstance(loaded, darsia.Image), f"C18/npz/type/{tag}", "imread returns a darsia.Image", got=type(loaded).__name__)
        r.check(loaded.img.dtype == pristine.dtype, f"C18/npz/dtype/{dcls}", f"[{tag}] dtype survives the round trip", got=str(loaded.img.dtype), want=str(pristine.dtype))
        r.check(loaded.img.shape == pristine.shape, f"C18/npz/shape/{tcls}", f"[{tag}] shape survives the round trip", got=list(loaded.img.shape), want=list(pristine.shape))
        r.check(bits_equal(np.asarray(loaded.img), pristine), f"C18/npz/data/{dcls}", f"[{tag}] pixel data are bit identical", got=np.asarray(loaded.img), want=pristine)
        m = loaded.metadata()
        r.check(list(m.keys()) == list(meta0.keys()), "C18/npz/meta-keys", f"[{tag}] same metadata keys", got=list(m.keys()), want=list(meta0.keys()))
        for key in meta0:
            if key not in m:
                continue
            r.check(same(m[key], meta0[key]), _meta_cell(case, key), f"[{tag}] metadata['{key}'] of the reloaded image is identical to that of the saved one", got=show(m[key]), want=show(meta0[key]))
            if key in exp:
                r.check(_loose_equal(m[key], exp[key]), _meta_cell(case, key), f"[{tag}] metadata['{key}'] of the reloaded image is what the image was constructed with", got=show(m[key]), want=show(exp[key]))
        missing = [k for k in exp if k not in m]
        r.check(not missing, "C18/npz/meta-keys", f"[{tag}] every constructor keyword of the metadata space is part of the reloaded metadata", missing=missing)
        # the attributes themselves (not only what metadata() reports about them)
        for attr in ("space_dim", "indexing", "dimensions", "origin", "series", "scalar", "date", "reference_date", "time", "name"):
            r.check(same(getattr(loaded, attr, "<missing>"), getattr(img, attr)), _meta_cell(case, attr), f"[{tag}] attribute '{attr}' of the reloaded image is identical to that of the saved one", got=show(getattr(loaded, attr, "<missing>")), want=show(getattr(img, attr)))
        for attr in ("time_dim", "range_dim", "range_num", "space_num", "num_voxels", "voxel_size"):
            r.check(same(getattr(loaded, attr), getattr(img, attr)), f"C18/npz/derived:{attr}", f"[{tag}] derived attribute '{attr}' identical", got=show(getattr(loaded, attr)), want=show(getattr(img, attr)))
        # derived attributes the metadata feed
        r.check(loaded.time_num == (shape[case["dim"]] if case["series"] else 1), f"C18/npz/shape/{tcls}", f"[{tag}] number of time slices", got=loaded.time_num)
        return m

    from pathlib import Path

    # cycle A: pathlib paths; cycle B: plain strings
    pa = Path(_fresh("a.npz"))
    pb = _fresh("b.npz")
    pc = Path(_fresh("c.npz"))
    try:
        ok, _ = stage(r, f"C18/npz/save/{tcls}", "Image.save works for every image", lambda: img.save(pa, verbose=False))
        if not ok:
            return
        r.check(bits_equal(img.img, pristine) and same(img.metadata(), meta0), "C18/npz/save-leaves-image", "saving does not change the image")
        ok, la = stage(r, f"C18/npz/read/{tcls}", "darsia.imread reads what Image.save wrote", lambda: darsia.imread(pa))
        if not ok:
            return
        ma = compare(la, "Path")
        ok, _ = stage(r, f"C18/npz/save/{tcls}", "Image.save works with a str path", lambda: img.save(pb, verbose=False))
        if ok:
            ok, lb = stage(r, f"C18/npz/read/{tcls}", "darsia.imread works with a str path", lambda: darsia.imread(pb))
            if ok:
                compare(lb, "str")
        # second generation: the reloaded image is itself saveable and reloads to the same
        ok, _ = stage(r, f"C18/npz/save-reloaded/{tcls}", "a reloaded image can be saved again", lambda: la.save(pc, verbose=False))
        if ok:
            ok, lc = stage(r, f"C18/npz/read/{tcls}", "second generation file is readable", lambda: darsia.imread(pc))
            if ok:
                r.check(bits_equal(np.asarray(lc.img), pristine), f"C18/npz/second-generation/{dcls}", "second generation data identical")
                r.check(same(lc.metadata(), ma), f"C18/npz/second-generation/{_timeclass(case)}", "second generation metadata identical to the first", got=show(lc.metadata()), want=show(ma))
        r.outcome(("npz", str(la.img.dtype), list(la.img.shape), show(ma)))
    finally:
        _rm(pa, pb, pc)


# --------------------------------------------------------------------------------- bytes
def png_encode(arr: np.ndarray, bits: int) -> bytes:
    """Minimal PNG writer (filter 0, one IDAT); colour samples are stored R,G,B."""
    h, w = arr.shape[:2]
    ch = 1 if arr.ndim == 2 else arr.shape[2]
    a = arr.reshape(h, w, ch).astype(">u2" if bits == 16 else "u1")
    raw = b"".join(b"\x00" + a[i].tobytes() for i in range(h))

    def chunk(tag, body):
        return struct.pack(">I", len(body)) + tag + body + struct.pack(">I", zlib.crc32(tag + body) & 0xFFFFFFFF)

    ihdr = struct.pack(">IIBBBBB", w, h, bits, {1: 0, 3: 2}[ch], 0, 0, 0)
    return b"\x89PNG\r\n\x1a\n" + chunk(b"IHDR", ihdr) + chunk(b"IDAT", zlib.compress(raw, 6)) + chunk(b"IEND", b"")


def tiff_encode(arr: np.ndarray, bits: int, bo: str) -> bytes:
    """Minimal baseline TIFF writer (uncompressed, one strip, chunky RGB)."""
    h, w = arr.shape[:2]
    ch = 1 if arr.ndim == 2 else arr.shape[2]
    pix = arr.reshape(h, w, ch).astype((bo + "u2") if bits == 16 else "u1").tobytes()
    ntags = 10
    ifd_off = 8
    extra_off = ifd_off + 2 + 12 * ntags + 4
    extra = struct.pack(bo + "HHH", bits, bits, bits) if ch == 3 else b""
    pix_off = extra_off + len(extra)

    def short(tag, v):
        return struct.pack(bo + "HHIHH", tag, 3, 1, v, 0)

    def long(tag, v):
        return struct.pack(bo + "HHII", tag, 4, 1, v)

    tags = [
        long(256, w),
        long(257, h),
        struct.pack(bo + "HHII", 258, 3, 3, extra_off) if ch == 3 else short(258, bits),
        short(259, 1),
        short(262, 2 if ch == 3 else 1),
        long(273, pix_off),
        short(277, ch),
        long(278, h),
        long(279, len(pix)),
        short(284, 1),
    ]
    head = (b"II" if bo == "<" else b"MM") + struct.pack(bo + "HI", 42, ifd_off)
    return head + struct.pack(bo + "H", ntags) + b"".join(tags) + struct.pack(bo + "I", 0) + extra + pix


def _selfcheck_encoder(data: bytes, arr: np.ndarray, fmt: str, bits: int) -> None:
    """The hand-written encoders are validated by decoders that are NOT the one under test."""
    import io

    if fmt == "tiff":
        import tifffile

        back = tifffile.imread(io.BytesIO(data))
        assert back.dtype == arr.dtype and back.shape == arr.shape and np.array_equal(back, arr), "harness: TIFF writer wrong"
    elif bits == 8 or arr.ndim == 2:
        from PIL import Image as PI

        back = np.asarray(PI.open(io.BytesIO(data)))
        assert back.shape == arr.shape and np.array_equal(back.astype(arr.dtype), arr), "harness: PNG writer wrong"


def run_bytes(case, r):
    import cv2

    import darsia

    h, w = case["shape"]
    bits, layout, fmt, enc = case["bits"], case["layout"], case["fmt"], case["enc"]
    dtype = "uint8" if bits == 8 else "uint16"
    shp = {"grey": (h, w), "single": (h, w, 1), "colour": (h, w, 3)}[layout]
    arr = payload(shp, dtype)  # RGB order for colour: channel c of pixel (i,j) is element 3*(i*w+j)+c
    if layout == "colour" and h * w > 1:
        assert not np.array_equal(arr[..., 0], arr[..., 2])
    r.nontriv(case)
    cls = f"fmt={fmt}/bits={bits}/layout={layout}"
    if enc == "cv2":
        # OpenCV expects B,G,R: reverse the channel axis by hand (no cvtColor in the harness)
        src = np.ascontiguousarray(arr[..., ::-1]) if layout == "colour" else arr
        okenc, buf = cv2.imencode(".png" if fmt == "png" else ".tiff", src)
        assert okenc, "harness: cv2.imencode failed"
        data = buf.tobytes()
    else:
        flat = arr[..., 0] if layout == "single" else arr
        data = png_encode(flat, bits) if fmt == "png" else tiff_encode(flat, bits, "<" if enc == "own-le" else ">")
        _selfcheck_encoder(data, flat, fmt, bits)
    kw = {} if case["kw"] == "none" else {"dimensions": [1.0, 2.0], "name": "from-bytes", "color_space": "RGB"}
    if layout != "colour":
        kw.pop("color_space", None)
    raw = bytes(data)
    ok, im = stage(r, f"C18/bytes/decode/{cls}/enc={enc}", "imread_from_bytes decodes a lossless byte string", lambda: darsia.imread_from_bytes(data, **copy.deepcopy(kw)))
    if not ok:
        return
    r.check(data == raw, f"C18/bytes/input-untouched/{cls}", "the byte string is not modified")
    want = arr if layout == "colour" else (arr[..., 0] if layout == "single" else arr)
    kind = darsia.OpticalImage if layout == "colour" else darsia.ScalarImage
    r.check(type(im) is kind, f"C18/bytes/kind/{cls}", "image kind matches the number of channels", got=type(im).__name__, want=kind.__name__)
    r.check(im.img.dtype == want.dtype, f"C18/bytes/dtype/{cls}", "bit depth is preserved", got=str(im.img.dtype), want=str(want.dtype))
    r.check(im.img.shape == want.shape, f"C18/bytes/shape/{cls}", "shape of the decoded array", got=list(im.img.shape), want=list(want.shape))
    if im.img.shape == want.shape:
        r.check(np.array_equal(im.img, want), f"C18/bytes/data/{cls}", "decoded array equals the encoded one, channels in RGB order", got=np.asarray(im.img), want=want, bgr_instead=bool(layout == "colour" and np.array_equal(im.img, want[..., ::-1])))
    r.check(im.scalar == (layout != "colour") and im.space_dim == 2 and not im.series, f"C18/bytes/flags/{cls}", "scalar / space_dim / series flags of the decoded image", scalar=im.scalar, space_dim=im.space_dim, series=im.series)
    if layout == "colour":
        r.check(getattr(im, "color_space", None) == "RGB", f"C18/bytes/flags/{cls}", "decoded colour image is tagged RGB", got=getattr(im, "color_space", None))
    wantdims = [1.0, 2.0] if kw else [1, 1]
    r.check([float(x) for x in im.dimensions] == [float(x) for x in wantdims], f"C18/bytes/kwargs/kw={case['kw']}", "keyword arguments reach the image (dimensions)", got=list(im.dimensions), want=wantdims)
    r.check(im.name == (kw.get("name")), f"C18/bytes/kwargs/kw={case['kw']}", "keyword arguments reach the image (name)", got=im.name)
    r.outcome(("bytes", type(im).__name__, str(im.img.dtype), np.asarray(im.img).tolist()))


# ------------------------------------------------------------------------------- optical
def run_optical(case, r):
    import skimage

    import darsia

    h, w = case["shape"]
    dtype, cs, suffix = case["dtype"], case["color_space"], case["suffix"]
    mx = 255 if dtype == "uint8" else 65535
    if case["payload"] == "provenance":
        arr = payload((h, w, 3), dtype)
    else:
        k = np.arange(h * w * 3).reshape(h, w, 3)
        arr = np.where(k % 2 == 0, mx, np.where(k % 3 == 0, 1, 0)).astype(dtype)
        arr[0, 0] = [mx, 0, mx - 1]
    pristine = arr.copy()
    rgb = pristine if cs == "RGB" else pristine[..., ::-1]
    want = skimage.img_as_float(np.ascontiguousarray(rgb))
    r.nontriv(case)
    cls = f"dtype={dtype}/suffix={suffix.lower()}/color_space={cs}"
    img = darsia.OpticalImage(arr, color_space=cs, dimensions=[1.0, 2.0])
    from pathlib import Path

    p1 = Path(_fresh("w" + suffix))
    p2 = Path(_fresh("w2" + suffix))
    try:
        ok, _ = stage(r, f"C18/optical/write/{cls}", "OpticalImage.write to a lossless format", lambda: img.write(p1))
        if not ok:
            return
        r.check(bits_equal(img.img, pristine) and img.color_space == cs, f"C18/optical/write-leaves-image/{cls}", "writing does not change the image", color_space=img.color_space)
        r.check(p1.exists(), f"C18/optical/write/{cls}", "the file exists after write")
        ok, back = stage(r, f"C18/optical/read/{cls}", "darsia.imread reads the written file", lambda: darsia.imread(p1))
        if not ok:
            return
        r.check(type(back) is darsia.OpticalImage and back.color_space == "RGB", f"C18/optical/kind/{cls}", "read image is an RGB OpticalImage", got=type(back).__name__, color_space=getattr(back, "color_space", None))
        r.check(back.img.dtype == np.float64, f"C18/optical/dtype/{cls}", "read image is float", got=str(back.img.dtype))
        r.check(back.img.shape == want.shape, f"C18/optical/shape/{cls}", "shape preserved", got=list(back.img.shape), want=list(want.shape))
        if back.img.shape == want.shape:
            r.check(
                np.array_equal(back.img, want),
                f"C18/optical/colours/{cls}",
                "written-then-read colours equal img_as_float of the original colours",
                maxdiff=float(np.max(np.abs(back.img - want))),
                got=back.img,
                want=want,
                channels_swapped=bool(np.array_equal(back.img, want[..., ::-1])),
            )
        # read -> write -> read: the float image that came from a file goes back losslessly
        ok, _ = stage(r, f"C18/optical/rewrite/{cls}", "an image read from file can be written again", lambda: back.write(p2))
        if ok:
            ok, again = stage(r, f"C18/optical/rewrite/{cls}", "... and read again", lambda: darsia.imread(p2))
            if ok:
                r.check(again.img.shape == back.img.shape and np.array_equal(again.img, back.img), f"C18/optical/rewrite/{cls}", "read -> write -> read returns the same colours", maxdiff=float(np.max(np.abs(again.img - back.img))) if again.img.shape == back.img.shape else None)
        r.outcome(("optical", back.img.tolist()))
    finally:
        _rm(p1, p2)


# --------------------------------------------------------------------------- corrections
_PHOTO = {}


def photo() -> np.ndarray:
    """The repository's example photograph (RGB, uint8); decoded once per process."""
    if "big" not in _PHOTO:
        import cv2

        from mc import env

        path = os.path.join(env.repo_root(), "examples", "images", "baseline.jpg")
        if not os.path.exists(path):
            path = "/repo/examples/images/baseline.jpg"
        bgr = cv2.imread(path, cv2.IMREAD_COLOR)
        assert bgr is not None and bgr.shape == (1788, 3180, 3), "harness: example photograph missing"
        _PHOTO["big"] = np.ascontiguousarray(bgr[..., ::-1])
    return _PHOTO["big"]


def crop(r0, c0, h, w) -> np.ndarray:
    return np.ascontiguousarray(photo()[r0 : r0 + h, c0 : c0 + w]).copy()


# colour checker of the photograph in the coordinates of crop(30, 30, 300, 400);
# anticlockwise, starting at the brown swatch (examples/images/config.json minus the offset)
CHECKER_ROI = [[116, 166], [190, 169], [190, 65], [118, 61]]


def apply_outcome(corr, probe):
    """Observable result of corr(probe): kind, array, metadata."""
    import darsia
    from mc import env

    env.reseed(0)
    arg = probe.copy() if isinstance(probe, (np.ndarray, darsia.Image)) else probe
    out = corr(arg)
    if isinstance(out, darsia.Image):
        return {"kind": type(out).__name__, "img": np.asarray(out.img), "meta": out.metadata()}
    return {"kind": type(out).__name__, "img": np.asarray(out), "meta": None}


def corr_key(case) -> str:
    c = case["cls"]
    if c == "TypeCorrection":
        return f"data_type={case['data_type']}"
    if c == "DriftCorrection":
        return f"active={int(case['active'])}/roi={case['roi']}/padding={case['padding']}"
    if c == "CurvatureCorrection":
        if case["kw"] in ("order0", "order3"):  # a non-default constructor argument: one class per argument value
            return f"kw={case['kw']}"
        return f"kw={case['kw']}/use_cache={int(case['use_cache'])}/cache={case['cache']}"
    if c == "IlluminationCorrection":
        return f"colorspace={case['colorspace']}/rescale={int(case['rescale'])}"
    return f"active={int(case['active'])}/balancing={case['balancing']}/base={case['base']}"


def build_correction(case):
    """Returns (correction, probes[name -> array|Image], warm probe or None)."""
    import darsia

    c = case["cls"]
    if c == "TypeCorrection":
        t = {"bool": bool, "float": float, "float32": np.float32, "float64": np.float64, "int": int, "uint8": np.uint8, "uint16": np.uint16}[case["data_type"]]
        corr = darsia.TypeCorrection(t)
        probes = {
            "optical-uint8": darsia.OpticalImage(crop(150, 95, 20, 30), color_space="RGB", dimensions=[1.0, 1.5]),
            "scalar-series-float64": darsia.Image(payload((2, 3, 2), "uint8").astype(np.float64) / 256.0, space_dim=2, scalar=True, series=True, time=[0.0, 2.5]),
            "array-uint16": payload((3, 4), "uint16"),
        }
        return corr, probes, None
    if c == "DriftCorrection":
        base = crop(30, 30, 300, 400)
        # every roi form describes the SAME box (rows 80..220, cols 40..200) once the relative padding
        # (padding * min(300, 400) pixels around the given points) is taken into account
        pad = int(round(case["padding"] * 300))
        r0, r1, c0, c1 = 80 + pad, 220 - pad, 40 + pad, 200 - pad
        roi = {
            "none": None,
            "slices": (slice(80, 220), slice(40, 200)),  # padding does not apply to slices
            "list": [[r0, c0], [r1, c1]],
            "voxels": darsia.make_voxel([[r0, c0], [r1, c0], [r1, c1], [r0, c1]]),
        }[case["roi"]]
        config = {"active": case["active"], "padding": case["padding"]}
        if roi is not None:
            config["roi"] = roi
        corr = darsia.DriftCorrection(darsia.Image(base, dimensions=[1.0, 1.5]) if case["base"] == "image" else base, config=config)
        if case.get("flip_active"):
            corr.active = not corr.active
        # roi-sensitive probe: inside the box the scene is shifted by (3,-2), outside by (-5,7); a correction
        # that looks at another region than the original one aligns by another translation
        comp = crop(25, 37, 300, 400)
        if roi is not None:
            comp[80:220, 40:200] = crop(33, 28, 300, 400)[80:220, 40:200]
        probes = {
            "array-shift(3,-2)": crop(33, 28, 300, 400),
            "image-shift(-4,5)": darsia.Image(crop(26, 35, 300, 400), dimensions=[1.0, 1.5], name="probe"),
            "array-composite": comp,
        }
        return corr, probes, None
    if c == "CurvatureCorrection":
        full = {
            "init": {"horizontal_bulge": 5e-6, "horizontal_center_offset": 0, "vertical_bulge": 0, "vertical_center_offset": 0},
            "crop": {"pts_src": [[3, 2], [4, 95], [140, 96], [141, 3]], "width": 3.0, "height": 2.0, "in meters": True},
            "bulge": {"horizontal_bulge": -0.0, "horizontal_center_offset": 0, "vertical_bulge": -2e-6, "vertical_center_offset": -3},
            "stretch": {"horizontal_stretch": -1e-6, "horizontal_center_offset": -5, "vertical_stretch": 7e-7, "vertical_center_offset": 4},
        }
        # "crop-voxels": the same quadrilateral marked with typed voxels (row, col) instead of a plain
        # list of (col, row) pixels
        full["crop-voxels"] = dict(full["crop"], pts_src=darsia.make_voxel([[2, 3], [95, 4], [96, 140], [3, 141]]))
        keys = {"empty": [], "all": ["init", "crop", "bulge", "stretch"]}.get(case["config"], case["config"].split("+"))
        config = {("crop" if k == "crop-voxels" else k): copy.deepcopy(full[k]) for k in keys}
        if case["use_cache"]:
            config["use_cache"] = True
            config["cache"] = _fresh("curvature-cache.npy")
        kw = {"default": {}, "order0": {"interpolation_order": 0}, "order3": {"interpolation_order": 3}, "resize": {"resize_factor": 0.5}}[case["kw"]]
        corr = darsia.CurvatureCorrection(config=config, **kw)
        probes = {
            "array-uint8": crop(30, 30, 100, 150),
            "image-float32-scalar": darsia.Image(crop(100, 60, 100, 150)[..., 1].astype(np.float32) / 255.0, space_dim=2, scalar=True, dimensions=[1.0, 1.5], name="probe"),
        }
        # used once on a DIFFERENT shape before saving: the cached grid is then observable in the outputs
        warm = crop(60, 40, 80, 120) if case["cache"] == "warm" else None
        return corr, probes, warm
    if c == "IlluminationCorrection":
        b1 = darsia.OpticalImage(crop(600, 600, 100, 150), color_space="RGB", dimensions=[1.0, 1.5])
        samples = [(slice(5, 25), slice(5, 25)), (slice(5, 25), slice(120, 140)), (slice(70, 90), slice(5, 25)), (slice(70, 90), slice(120, 140)), (slice(40, 60), slice(60, 80))]
        corr = darsia.IlluminationCorrection()
        from mc import env

        env.reseed(0)
        corr.setup(b1, samples, colorspace=case["colorspace"], interpolation=case["interpolation"], rescale=case["rescale"])
        if case["probes"] == "float":
            probes = {
                "optical-float64": darsia.OpticalImage(crop(700, 900, 100, 150).astype(np.float64) / 255.0, color_space="RGB", dimensions=[1.0, 1.5]),
                "array-float32": crop(800, 1200, 100, 150).astype(np.float32) / 255.0,
            }
        else:
            probes = {
                "optical-uint8": darsia.OpticalImage(crop(700, 900, 100, 150), color_space="RGB", dimensions=[1.0, 1.5]),
                "array-uint16": crop(800, 1200, 100, 150).astype(np.uint16) * 257,
            }
        return corr, probes, None
    if c == "ColorCorrection":
        base_arr = crop(30, 30, 300, 400)
        roi = CHECKER_ROI if case["roi"] == "list" else np.array(CHECKER_ROI)
        config = {
            "roi": roi,
            "active": case["active"],
            "whitebalancing": case["whitebalancing"],
            "colorbalancing": case["colorbalancing"],
            "balancing": case["balancing"],
            "clip": case["clip"],
        }
        if case["base"] == "none":
            base = None
        elif case["base"] == "checker":
            ref = (payload((4, 6, 3), "uint8").astype(np.float32) + 8.0) / 272.0
            base = darsia.CustomColorChecker(reference_colors=ref)
        else:
            from mc import env

            env.reseed(0)
            base = darsia.OpticalImage(crop(31, 29, 300, 400), color_space="RGB")
        corr = darsia.ColorCorrection(base=base, config=config)
        probes = {
            "array-uint8": base_arr,
            "optical-float32": darsia.OpticalImage(crop(30, 31, 300, 400).astype(np.float32) / 255.0, color_space="RGB", dimensions=[1.0, 1.5]),
        }
        return corr, probes, None
    raise AssertionError(c)


def run_corr(case, r):
    from pathlib import Path

    import darsia

    cls = case["cls"]
    key = corr_key(case)
    r.nontriv(case)
    corr, probes, warm = build_correction(case)
    if warm is not None:
        apply_outcome(corr, warm)  # the correction has been used before it is saved
    # One file name per correction class and process, written again and again with different
    # configurations (a user overwriting "drift.npz"): a reader must return what the file holds NOW.
    path = Path(os.path.join(_scratch(), f"reused-{os.getpid()}-{cls}.npz"))
    try:
        ok, _ = stage(r, f"C18/correction/{cls}/save/{key}", "a configured correction can be saved", lambda: corr.save(path))
        if not ok:
            return
        r.check(path.exists(), f"C18/correction/{cls}/save/{key}", "save writes exactly the file it was given", listing=sorted(os.listdir(path.parent))[-3:])
        ok, re = stage(r, f"C18/correction/{cls}/read/{key}", "read_correction reloads the saved correction", lambda: darsia.read_correction(path))
        if not ok:
            return
        r.check(type(re) is type(corr), f"C18/correction/{cls}/read/{key}", "read_correction returns the class that was saved", got=type(re).__name__)
        digest = []
        for name, probe in probes.items():
            cell = f"C18/correction/{cls}/output/{key}"
            pristine = probe.copy()
            ok, a = stage(r, f"C18/correction/{cls}/apply-original/{key}", "the original correction applies to the probe", lambda: apply_outcome(corr, probe), probe=name)
            if not ok:
                continue
            ok, b = stage(r, f"C18/correction/{cls}/apply-reloaded/{key}", "the reloaded correction applies to the probe", lambda: apply_outcome(re, probe), probe=name)
            if not ok:
                continue
            r.check(a["kind"] == b["kind"], cell, "reloaded correction returns the same kind of object", probe=name, got=b["kind"], want=a["kind"])
            r.check(a["img"].dtype == b["img"].dtype and a["img"].shape == b["img"].shape, cell, "reloaded correction returns the same dtype and shape", probe=name, got=[str(b["img"].dtype), list(b["img"].shape)], want=[str(a["img"].dtype), list(a["img"].shape)])
            if a["img"].shape == b["img"].shape:
                diff = np.abs(a["img"].astype(np.float64) - b["img"].astype(np.float64))
                r.check(bits_equal(a["img"], b["img"]), cell, "reloaded correction produces bit-identical output", probe=name, maxdiff=float(np.nanmax(diff)) if diff.size else 0.0, differing=int(np.count_nonzero(diff)))
            r.check(same(a["meta"], b["meta"]), f"C18/correction/{cls}/output-metadata/{key}", "reloaded correction produces identical metadata", probe=name, got=show(b["meta"]), want=show(a["meta"]))
            # the probe itself is a copy per application, so this only guards the harness
            assert same(probe.img, pristine.img) if isinstance(probe, darsia.Image) else same(probe, pristine)
            digest.append((name, a["kind"], str(a["img"].dtype), list(a["img"].shape), float(np.nansum(a["img"].astype(np.float64)))))
        r.outcome((cls, digest))
    finally:
        _rm(path)
        if case.get("use_cache"):
            _rm(corr.config.get("cache", ""))


# ---------------------------------------------------------------------------------- main
def run_case(case, r):
    kind = case["kind"]
    if kind == "npz":
        run_npz(case, r)
    elif kind == "bytes":
        run_bytes(case, r)
    elif kind == "optical":
        run_optical(case, r)
    else:
        run_corr(case, r)


def crash_cell(case, exc, where):
    kind = case.get("kind")
    if kind == "corr":
        return f"C18/correction/{case['cls']}/crash/{type(exc).__name__}@{where}/{corr_key(case)}"
    if kind == "npz":
        return f"C18/npz/crash/{type(exc).__name__}@{where}/dim={case['dim']}/{_timeclass(case)}"
    if kind == "bytes":
        return f"C18/bytes/crash/{type(exc).__name__}@{where}/fmt={case['fmt']}/bits={case['bits']}/layout={case['layout']}"
    return f"C18/optical/crash/{type(exc).__name__}@{where}/dtype={case.get('dtype')}/suffix={case.get('suffix')}"
