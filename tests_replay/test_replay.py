"""Plain pytest replay of recorded violations (no explorer involved).

    cd /verif && PYTHONPATH=/verif:/repo/src /venv/bin/python -m pytest -q tests_replay

Every file /verif/replay/<ID>-<n>.json holds one concrete case (configuration, operation
sequence or fault schedule).  The test re-executes exactly that case on the real code and
fails if the recorded cell is violated again; with an empty replay directory it is vacuous.
"""
import glob
import importlib
import json
import os

import pytest

HOME = os.path.dirname(os.path.dirname(os.path.abspath(__file__)))
FILES = sorted(glob.glob(os.path.join(HOME, "replay", "*.json")))


@pytest.mark.parametrize("path", FILES or [None])
def test_replay(path):
    if path is None:
        pytest.skip("no recorded violations")
    from mc import env
    from mc.core import R, run_one

    env.setup()
    rec = json.load(open(path))
    prop = importlib.import_module("props." + rec["property"].lower())
    if hasattr(prop, "worker_init"):
        prop.worker_init()
    r = R()
    run_one(prop, rec.get("case_index", 0), rec["case"], r)
    again = [v for v in r.viol if v["cell"] == rec["cell"]]
    assert not again, f"{rec['cell']}: {again[0]['clause']} -- {json.dumps(again[0]['detail'])[:500]}"
