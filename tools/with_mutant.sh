#!/bin/bash
# usage: tools/with_mutant.sh <patch.diff | -e 'sed-expr' file> -- <command...>
# Applies a patch to a scratch worktree of /repo (never to /repo), runs the command with
# VERIF_REPO pointing at it, removes the worktree.
set -u
wt="$(mktemp -d /tmp/darsia-mut.XXXXXX)"
rmdir "$wt"
git -C /repo worktree add --detach -q "$wt" HEAD || exit 3
cleanup() { git -C /repo worktree remove --force "$wt" 2>/dev/null; rm -rf "$wt"; }
trap cleanup EXIT
# carry over uncommitted changes of /repo (none normally)
if [ "$1" = "-e" ]; then
  sed -i "$2" "$wt/$3" || exit 3
  shift 3
else
  git -C "$wt" apply "$(readlink -f "$1")" 2>/dev/null || patch -d "$wt" -p1 --fuzz=3 -s -r - < "$(readlink -f "$1")" || { echo "patch does not apply"; exit 3; }
  shift 1
fi
[ "$1" = "--" ] && shift
( cd "$wt" && git diff --stat | tail -1 )
VERIF_REPO="$wt" "$@"
