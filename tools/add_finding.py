#!/usr/bin/env python3
"""usage: add_finding.py <PROP> <cell-pattern> <fixed|known> "<what>" [commit]"""
import json, sys
prop, cell, status, what = sys.argv[1:5]
commit = sys.argv[5] if len(sys.argv) > 5 else None
p = "/verif/known_findings.json"
f = json.load(open(p))
e = {"property": prop, "cell": cell, "status": status, "what": what}
if commit:
    e["commit"] = commit
    e["line"] = f"fixed: property={prop} {commit} {what}"
f["findings"].append(e)
json.dump(f, open(p, "w"), indent=1)
print("added", e)
