#!/usr/bin/env python3
"""usage: gen_seed_prompts.py <round-dir> <variant1> <variant2> [PROP ...]

Writes <round-dir>/<ID>/PROMPT.txt for fresh seeding sub-agents and creates their private
worktrees <round-dir>/<ID>/wt (detached HEAD of /repo).  A prompt contains the property
text, the task, and one-line summaries of the changes earlier rounds produced for that
property (so they are not repeated) -- nothing else from /verif.
"""
import json
import os
import subprocess
import sys

root, v1, v2 = sys.argv[1:4]
only = set(sys.argv[4:])
props = [json.loads(l) for l in open("/verif/properties.jsonl")]
ROUND_HINT = {
    "default": (
        "This is a LATER round. {n} changes were already produced for this property by others (listed below); do NOT repeat them or "
        "variants of them. Aim for changes a careful reviewer with a good test-suite would still miss. Directions that were rarely used so "
        "far: (1) a clause of the statement that none of the listed changes attacks; (2) an interaction between TWO public entry points "
        "(one prepares state, the other observes it); (3) behaviour that differs only for one storage type, one memory layout "
        "(non-contiguous / transposed / sliced views, Fortran order, read-only arrays), one container type (tuple vs list vs array) or one "
        "numeric class (negative, zero, huge, denormal-small, integer-valued floats); (4) a value exactly on a boundary (exactly one voxel, "
        "exactly equal extents, empty-but-legal selections, first/last index); (5) error-handling paths that now swallow or mislabel a "
        "failure; (6) a quantity that is right in 2-D and wrong only in 1-D or 3-D (or vice versa). Stay inside the property's quantifier - "
        "the violation must be a violation of the statement above, not of some other expectation."
    )
}

for p in props:
    pid = p["id"]
    if only and pid not in only:
        continue
    d = os.path.join(root, pid)
    os.makedirs(os.path.join(d, "out"), exist_ok=True)
    wt = os.path.join(d, "wt")
    if not os.path.isdir(wt):
        subprocess.run(["git", "-C", "/repo", "worktree", "add", "--detach", "-q", wt, "HEAD"], check=True)
    used = []
    sd = "/verif/seeded"
    for name in sorted(os.listdir(sd)):
        if name.startswith(pid + "-") and os.path.isfile(os.path.join(sd, name, "meta.json")):
            try:
                m = json.load(open(os.path.join(sd, name, "meta.json")))
            except Exception:
                continue
            files = m.get("files") or []
            f0 = files[0] if files else "?"
            used.append(f"  - ({f0}) {str(m.get('summary', ''))[:300]}")
    files = ", ".join(p["anchors"]["files"])
    text = f"""You are testing how well a (hidden) verification suite detects regressions in the Python library pmgbergen/DarSIA. You have your own scratch git worktree of the library at {wt} (a checkout of the current HEAD). Work ONLY inside {d} (never touch /repo or /verif, do not read anything under /verif). Python: use `cd {wt} && PYTHONPATH={wt}/src /venv/bin/python ...` so that your modified sources are the ones imported (check `darsia.__file__` once).

THE PROPERTY (of DarSIA's public behaviour):
  id: {pid}
  title: {p['title']}
  statement: {p['statement']}
  quantified over: {p['quantifier']['text']}
  code it is anchored in: {files}

YOUR TASK: produce TWO different, realistic changes to the DarSIA sources under {wt}/src (call them {v1} and {v2}; different mechanisms, ideally different functions) such that each one
  1. BREAKS the property above (for some input / configuration / call history inside the property's quantifier),
  2. still imports, and the existing unit-test suite still passes exactly as before: run `cd {wt} && PYTHONPATH={wt}/src /venv/bin/python -m pytest -q -p no:cacheprovider -n 4 tests/unit` - the expected baseline is `123 passed` (plus skips/xfails); the same must hold with your change applied,
  3. needs something SPECIFIC to manifest - a particular shape class, a particular option combination, a multi-step sequence of calls, an unusual but legal input, a value on one side of a threshold, two cooperating sites that each look fine alone - NOT something ordinary use or the first call would expose at once, and not a crash on every input. Think of the kind of slip a developer makes in a refactoring.
  4. comes with a small demonstration script (plain python, no pytest needed) that exits with status 0 on the unmodified worktree and non-zero (assertion failure printing what differs) with the change applied. The demonstration must exercise DarSIA's public API only.

DELIVERABLES for each change x in {{{v1}, {v2}}}, written to {d}/out/x/:
  - patch.diff : `git diff` of the change against the worktree HEAD (one change only; reset the worktree with `git checkout -- .` between the two),
  - demo.py    : the demonstration script,
  - meta.json  : {{"property": "{pid}", "summary": "<one sentence: what was changed>", "needs": "<what is needed for the violation to manifest>", "files": [...], "tests_run": "<the exact pytest command and its summary line with the change applied>", "demo_without": "<exit status/summary on unmodified tree>", "demo_with": "<exit status/summary with the change>"}}.
Leave the worktree clean (git checkout -- .) when you are done. Your final message: for each change one line with the summary and what it needs to manifest; nothing else is required.

Notes: there is no network. The 5 tests under tests/integration fail at baseline (missing image files) - ignore them, run tests/unit only. Importing darsia takes ~3 s. Keep CPU use moderate (-n 4 for pytest). Do not weaken or edit tests. Do not add new dependencies.

IMPORTANT: do not use `git stash` (it is shared between all worktrees of the repository); save diffs to files and use `git checkout -- .` / `git apply` instead.

{ROUND_HINT['default'].format(n=len(used))}
Already used:
""" + "\n".join(used) + "\n"
    open(os.path.join(d, "PROMPT.txt"), "w").write(text)
    print(pid, len(used), "earlier changes listed")
