#!/bin/bash
# usage: tools/run_mutants.sh <PROP> [more PROPs]   -> mutants/RESULTS-<PROP>.txt
# Each mutants/<PROP>-*.diff is applied to a scratch worktree; the check must report it.
cd "$(dirname "$0")/.."
for P in "$@"; do
  out="mutants/RESULTS-$P.txt"; : > "$out"
  for d in mutants/$P-*.diff; do
    [ -f "$d" ] || continue
    full=$(tools/with_mutant.sh "$d" -- ./check "$P" --no-evidence 2>&1)
    res=$(echo "$full" | tail -1)
    if echo "$full" | grep -q "patch does not apply"; then v=STALE-PATCH; elif echo "$res" | grep -q "FAIL"; then v=CAUGHT; else v=MISSED; fi
    cells=$(echo "$res" | sed -n 's/.*violating_cells=\([0-9]*\).*/\1/p')
    echo "$v $(basename "$d" .diff) violating_cells=$cells" | tee -a "$out"
  done
done
