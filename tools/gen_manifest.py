#!/usr/bin/env python3
"""Regenerate /verif/MANIFEST.json from the table below (kept valid at all times)."""
import json
import os
import subprocess
import sys

HOME = os.path.dirname(os.path.dirname(os.path.abspath(__file__)))

BASELINE_OFF = (
    "cd /repo && /venv/bin/python -m pytest -ra -q -p no:cacheprovider --timeout=900 "
    "--continue-on-collection-errors"
)

# id -> (level, technique, level text, level note, design ref)
T = {
    "C09": (
        "model_checking",
        "exhaustive lattice of affine parameters with exact oracles + explicit-state BFS over live (correction, image A, image B) triples, exact Fraction reference at every destination voxel centre",
        "Affine maps: all scalings x angle tuples (3-D: every triple incl. several non-zero) x translations x point forms, round trips in both orders, orthonormality, det 1, "
        "documented action. Corrections: every whole-voxel shift in [-n-1, n+1] per axis (incl. larger than the image), identity and quarter turns, for coordinate / voxel / voxel-centre "
        "parametrisations, set directly and fitted, through TransformationCorrection and CoordinateTransformation with equal and different destination systems; per object a BFS over "
        "{apply to A, apply with overwrite, apply to B, raw array} to a fixpoint plus all sequences of length <= 2 (thorough 3); the output must equal the exactly computed shift / rotation "
        "and a re-used object must behave like a fresh one.",
        "Trusted: exact rational reference in props/c09.py; fitted maps held to the oracle only if the fit lands within 1/4 voxel. Corrections use scaling 1.",
        "DESIGN.md §3 C09",
    ),
    "C17": (
        "model_checking",
        "explicit-state search over a pool of live operands with content + alias-signature states: all chains of registry calls (length 2, thorough 3) and an abstract-state BFS to a fixpoint; full-content comparison of every argument and of the RNG state after every call",
        "Registry of 163 call forms in 62 groups (arithmetic, comparisons, conversions, extraction, constructors with caller-owned containers, weight, superpose, stack, resize, "
        "reduction, models, integration, distances, Patches, ConcentrationAnalysis) applied to a pool of images of every kind and to the previous result. After every transition every "
        "pool object, every argument and the NumPy/Python RNG state must be content-identical to before, and + - * must equal raw-array arithmetic. Chains of length 2 are enumerated "
        "completely; an abstract graph (class, flags, dtype, colour space, time form, alias signature) is searched to a fixpoint with every (node, enabled form) pair executed on a live object.",
        "Trusted: pickle-based content comparison confirmed by mc.canon.digest before reporting. Soundness of the abstraction: whether a call can write into an operand depends on which containers it receives (kind + alias signature), not on pixel values. OpenCV's RNG cannot be observed.",
        "DESIGN.md §3 C17",
    ),
    "C13": (
        "exploration",
        "exhaustive enumeration of baseline/probe kinds x dtypes x stage presence x stage order x diff options with recording stubs and with the real stages; all ordered 2-call histories on one object",
        "Stub family: {scalar, RGB} x image class x 3 shapes x 4 dtypes x 0..3 extra baselines x each stage {absent, injective recording stub} x both orders x 4 diff options; real family: "
        "all monochromatic reductions, TVD variants and linear/scaling models. Every configuration is run on the baseline itself and on mixed-sign / sub-threshold / impulse probes and compared with "
        "a plain float64 reference composition; the stage call order is read from the stubs' logs; probe snapshots, metadata and result class are checked; an Eulerian circuit over all ordered probe "
        "pairs on one shared analysis object covers every 2-call history (bit-identical to fresh).",
        "Trusted: the float64 reference composition in props/c13.py; skimage routines called with the wrapper's parameters for the real TVD stages. hsv reduction on integer dtypes and Bregman TVD on unit extents excluded a priori (documented in describe()).",
        "DESIGN.md §3 C13",
    ),
    "C14": (
        "exploration",
        "exhaustive enumeration of explicit signal/parameter/label-map alphabets through the real models, closed-form references (exact rational arithmetic for the polynomial space)",
        "Signals over a 6-level alphabet in every supported form (lists, 2-D, RGB arrays, Images); all bound pairs, scalings/offsets, every subset of updatable "
        "parameters; all 39 sequences of length <= 3 of {clip, scaling, linear} with every (position, subset) dof list; all 122 set partitions of a 2x3 grid into <= 3 labels "
        "(thorough all 203) plus 4/5-label stripes for the label-wise models; threshold ladders x masks; every well-conditioned 1..4-subset of a support pool x 4 kernels "
        "for kernel interpolation (reproduction, accelerated vs plain sum, updates); degrees 0..4 of the polynomial space with exact Fraction rank / column-space equality.",
        "Trusted: closed-form references in props/c14.py; float32 kernel evaluations compared at 1e-4(1+sum|w|); support sets with condition number > 100 excluded a priori (statement: well-conditioned).",
        "DESIGN.md §3 C14",
    ),
    "C16": (
        "model_checking",
        "explicit-state BFS over live solver objects and module-level default instances (full-content hashing, fixpoint or depth 4) + all un-deduplicated call sequences; oracle = each call executed first in a fresh interpreter",
        "State = the harness's solver objects plus every module-level default instance reachable through __defaults__ of the anchored modules. Per group of objects that can "
        "share state (Jacobi, MG, heterogeneous MG, H1 with default/explicit solver, split-Bregman TVD, Anderson, 9 Wasserstein objects, a cross world) the search applies every "
        "parameterised call in every reachable state (de-duplicated to depth 4 / fixpoint, thorough 6) and all sequences of length <= 2 (thorough 3); every return value must be "
        "bit-identical (1e-12 for AMG) to the table entry computed by the same call issued first in its own process.",
        "Trusted: mc.canon.digest for state identity; table rows computed in forks of a pristine zygote interpreter, cross-validated at every run against genuinely new interpreters (17 rows quick, all rows thorough). Thread counts pinned to 1.",
        "DESIGN.md §3 C16",
    ),
    "C19": (
        "exploration",
        "exhaustive enumeration of image shapes x patch counts x overlaps x frames through the real Patches class, integer cover array and own affine map as reference",
        "Every 2-D shape with extents 1..12 (extents 13..40 along lines/diagonal in quick, every shape up to 40x40 in thorough) x all 36 patch-count pairs x overlaps "
        "{0,0.1,0.25,0.5} x scalar/colour payloads x four physical frames; per configuration: interiors cover every voxel exactly once, re-assembly reproduces the image, each patch "
        "equals the sub-image at its advertised voxel corners, corners/centres in voxel and metric units agree under the base coordinate system, centres lie in their box.",
        "Trusted: the affine voxel->coordinate model of props/c19.py (C01). Non-dyadic frames compared at 1e-9 relative.",
        "DESIGN.md §3 C19",
    ),
    "C12": (
        "exploration",
        "exhaustive enumeration of swatch sets x ground-truth maps x balance classes x every ordered pair/triple of staged modes on the real balances, stage balances re-fitted independently",
        "Complete product of deterministic well-conditioned swatch sets (4x6x3, 24x3, 6x3) x ground-truth maps (identity, diagonal, linear, affine, one non-affine) x "
        "White/Color/Affine/Adaptive balances x start balance x entry point; all 36 ordered pairs and triples of {diagonal, linear, affine} stages with fixed and "
        "moving targets, the accumulated scaling/translation compared with the composition of independently re-fitted stage balances; the same inside "
        "ColorCorrection.correct_array on a synthetic colour-checker image.",
        "Trusted: the stage classes' deterministic Powell fits for the stage references (lstsq only as a lower bound); maps within 0.5 of the identity; recovery tolerance 1e-6 (2e-4 through float32 swatch extraction).",
        "DESIGN.md §3 C12",
    ),
    "C10": (
        "model_checking",
        "explicit-state BFS over live (correction, input) pairs with full-content hashing, every transition a real correction call compared with a never-used correction applied to a private raw copy",
        "56 correction configurations (type, rotation 2-D/3-D, translation, curvature, drift, colour, illumination, affine and generalised-perspective "
        "transformation corrections) x input kinds {array, scalar/vector/optical image, series} x dtypes x shapes are roots; from each the search applies "
        "overwrite in {False, True} repeatedly (de-duplicated BFS to depth 3, thorough 5, plus all un-deduplicated sequences of length <= 2) and checks on every "
        "transition: input untouched / same object, result class, pixels equal to the reference correction on the raw array, metadata = input + declared updates, "
        "series == per-slice application, neutral parameters leave values unchanged; plus composition through Image(arr, transformations=[...]).",
        "Trusted: mc.canon.digest; the differential reference (fresh correction of the same configuration); explicit index-shift models where unambiguous. OpenCV RNG re-seeded identically before call and reference.",
        "DESIGN.md §3 C10",
    ),
    "C11": (
        "exploration",
        "exhaustive enumeration of image shapes x targets x payloads with complete impulse bases through the real resampling/reduction routines, NumPy accumulation-loop reference",
        "Every 2-D shape with extents up to the bound (odd extents included) x dtype x payload x every admissible resize target / refinement level -3..3 / "
        "extrusion / axis (by index and by Cartesian name) x {sum, average}, and superposition of 1..4 images on a shared grid and at every tuple of voxel-aligned "
        "offsets, each on the complete impulse basis plus linear combinations (linear maps: decides all data of that shape).",
        "Trusted: NumPy reference loops in props/c11.py. Conservative resize is judged on the array sum per channel (what the code documents and test_emd_2d_resize relies on), tolerance 1e-5 (OpenCV float32 weights).",
        "DESIGN.md §3 C11",
    ),
    "C05": (
        "exploration",
        "exhaustive enumeration of explicit mass/grid/option alphabets on the real solvers; independent unique-flux cost on thin grids; certified lower bound (Kelley cutting planes over the cycle space) for the discrete minimum",
        "Identity, symmetry, mass/weight scaling and the first-moment bound are evaluated for all ordered pairs of 2-quanta compositions on the "
        "small grids and for named dense/sparse/single-cell pairs elsewhere, for Newton and Bregman and all L1 x mobility modes; on every 1-D and "
        "one-cell-thin grid in the bound every method x mode x iteration count x formulation must return the independently computed cost of the "
        "unique mass-conserving flux; on grids with <= 5 cycles the distance is compared with a certified lower bound of the discrete minimum; "
        "front-end dispatch is compared bit-for-bit; the OpenCV back-end is checked on all ordered single-cell moves of two grids x three voxel-size pairs.",
        "Trusted: props/_wass.py reference operators, scipy linprog for the cutting-plane bound (a certified bound cannot raise a false alarm; box assumption checked a posteriori). Bregman mass scaling is asserted with L scaled along.",
        "DESIGN.md §3 C05",
    ),
    "C08": (
        "model_checking",
        "exhaustive enumeration of grid shapes x admissible right-hand-side bases through the real linear_solve of every formulation/back-end; explicit-state search over call histories (factorisation reuse)",
        "For every grid shape in the bound and two face-weight patterns the real linear_solve of each formulation/back-end is run on a complete "
        "basis of the admissible right-hand sides (linear map: decides all right-hand sides) and each solution is checked against an independently "
        "assembled full system and against the full direct solve, component-wise. Reuse of cached factorisations is explored as call "
        "sequences over {M1,M2} x {r1,r2} x reuse to depth 3 on one object, each output compared with a fresh object. End-to-end distances of the "
        "C04 lattice are compared across formulations.",
        "Trusted: the dense reference assembly in props/c08.py. Iterative back-ends compared at 1e-6 on weights within one decade (AMG stalls on wider ranges). PETSc absent.",
        "DESIGN.md §3 C08",
    ),
    "C18": (
        "exploration",
        "exhaustive enumeration of the metadata lattice / byte-string formats / correction configurations through real save-load cycles, bitwise comparison",
        "Every point of the image metadata lattice (space_dim x series x scalar x dtype x 5 time-info variants x name x origin; provenance-coded data "
        "with float edge values) is saved with Image.save and re-read with imread (Path and str, two generations) and compared bitwise with the saved "
        "object and with a reference built from the case descriptor; PNG/TIFF byte strings from cv2 and from hand-written encoders for every "
        "bit depth/channel layout/shape are decoded with imread_from_bytes; optical write/read for lossless formats; every correction configuration "
        "that supports saving is reloaded through read_correction and applied to probes (RNG re-seeded) with bit-identical output required.",
        "Trusted: numpy/cv2/PIL encoders used to build inputs (hand-written encoders cross-validated with PIL/tifffile). JPEG/DICOM/VTU excluded by the statement.",
        "DESIGN.md §3 C18",
    ),
    "C04": (
        "model_checking",
        "exhaustive option lattice on the real solvers + deviation-bounded enumeration of failing inner linear solves (complete fault tree per run), independent reference divergence/cost",
        "Every configuration of the option lattice (grids incl. single-cell axes x voxel sizes x mass classes x Newton/Bregman/adaptive Bregman x "
        "3 L1 x 5 mobility modes x 5 formulation/back-end pairs x Anderson x cell weight; quick: covering design, thorough: full product) is executed; "
        "the flat solution is captured and checked against an independently written divergence, RT0 reconstruction and cost. For the status "
        "clause each base run (x num_iter x tolerance regimes) is expanded by its complete fault tree: every in-loop linear solve, in turn, raises; "
        "bound 2 is explored and shown to add nothing (the loop ends at the first failure). Every execution is on the implementation; a faulted "
        "result is compared with the fault-free run limited to the completed iterations.",
        "Trusted: props/_wass.py reference operators; grid connectivity (C07), quadrature tables (C15). Tolerance for mass balance is relative to the largest term of the linear systems solved (backward-error reading of 'solver precision'). PETSc back-end absent. Grids <= 12 cells.",
        "DESIGN.md §3 C04",
    ),
    "C03": (
        "model_checking",
        "explicit-state search over the hidden state of live Geometry objects (fixpoint) + all call sequences up to a length + exhaustive lattice with complete impulse bases",
        "Histories: for every geometry kind/weight form the hidden state of one object (cached volumes) is explored breadth-first with full-content "
        "hashing until no new state appears, and all un-deduplicated sequences of integrate() calls over {native, coarser, finer, other-coarser} x "
        "{array, Image} up to length 3 (thorough 5) are replayed; every return value must be bit-identical to the same call on a fresh object, and the "
        "fresh value must equal the reference sum. Values: integrate is linear, so the complete impulse basis at every resolution "
        "(refinement {1,2,3}^d, every divisor coarsening) for every payload layout decides the value for all data of that shape.",
        "Trusted: numpy reference sums; 1e-12 relative tolerance, 1e-6 where OpenCV area-resamples array weights. Shapes <= 4x6 / 2x2x2; array weights at foreign resolution 2-D only (API).",
        "DESIGN.md §3 C03",
    ),
    "C02": (
        "model_checking",
        "explicit-state BFS over live Image objects to a fixpoint (full-content hashing), every transition executed on the implementation and decoded through provenance-coded data",
        "For each root image (2-D/3-D x scalar/vector x 4 time layouts x 2 origins) the search applies every non-empty subregion, time_slice "
        "and time_interval to every reachable image until no new state appears, so the result covers every nesting depth on these bases; each "
        "transition is checked against the composed-offset reference (data block, physical coordinate of every voxel corner, time stamps, flags), "
        "alternative ROI spellings (open-ended slices, voxel corners incl. outside, physical corners at interior offsets and outside) must give "
        "the identical image, and two histories reaching the same block must give identical content. Series assembly (append/stack, 2..5 images) "
        "is enumerated as a lattice.",
        "Trusted: numpy slicing for the reference block; mc.canon.digest for state identity (full content, never coarsened). Base shapes are bounded (quick 3x4 / 2x3x2, thorough 4x5 / 3x4x3, 3 time steps).",
        "DESIGN.md §3 C02",
    ),
    "C01": (
        "exploration",
        "exhaustive enumeration of image geometries x every voxel incl. halo x intra-voxel offsets, closed-form affine reference model",
        "All space_dims, every shape up to the bound (single-voxel axes included), dimension patterns spanning 1e-4..1e4, three origins "
        "(one 1e6 voxel sizes away), four payload layouts and both constructor forms; for each image every voxel of the image plus a halo "
        "of 2 and a lattice of interior offsets is pushed through coordinate()/voxel() in batch, single, list, tuple and typed-point forms "
        "and compared with the closed-form model.",
        "Trusted: the axis convention written in props/c01.py; float64 rounding bound 8 eps x magnitude. Interior points down to 2^-20 of a voxel from a face are in the alphabet; closer ones (rounding level) are not.",
        "DESIGN.md §3 C01",
    ),
    "C06": (
        "exploration",
        "exhaustive enumeration of grid shapes x complete impulse bases through the real FV operators, explicit-loop reference operators",
        "Every grid shape in the property's bound x two voxel-size forms; each operator (divergence, mass, face_to_cell at a lattice of "
        "evaluation points, arithmetic/harmonic averages for 4 input forms, tangential/full reconstruction) is executed on the complete "
        "impulse basis (linear maps: decides the identity for all data of that shape) or a complete small value alphabet (harmonic mean) "
        "and compared exactly with an explicit-loop model.",
        "Trusted: numpy; connectivity tables as verified by C07; dyadic data so comparisons are exact. Larger grids than the bound are not covered.",
        "DESIGN.md §3 C06",
    ),
    "C15": (
        "exploration",
        "exhaustive enumeration of the finite rule table x all monomials up to the nominal degree",
        "The set of quadrature rules is finite; every (dimension, order, domain) the API accepts and every monomial with per-variable "
        "degree <= 2n-1 is evaluated against the closed-form integral. Complete enumeration of a finite space.",
        "Trusted: float64 arithmetic with tolerance 1e-13.",
        "DESIGN.md §3 C15",
    ),
    "C20": (
        "exploration",
        "exhaustive enumeration of the finite axis tables and of all small array/image shapes, cross-checked against the real coordinate system",
        "All dims x axes x directions x spellings of the helper tables, all array shapes with extents 1..3 for the layout helpers "
        "(provenance-coded data), and every axis/cut of every 2-D/3-D image shape with extents 1..3 for slice/reduce by name vs by index.",
        "Trusted: the voxel-step convention written in props/c20.py (itself cross-checked against CoordinateSystem).",
        "DESIGN.md §3 C20",
    ),
    "C07": (
        "exploration",
        "exhaustive enumeration of all grid shapes in the bound, explicit-loop reference model of the numbering",
        "Every grid shape with extents up to the property's bound (and beyond, thorough tier) is built with the real Grid "
        "and each numbering/connectivity table is compared entry by entry with an independent explicit-loop model; the "
        "space is finite and enumerated completely, so within the bound the result is a coverage statement, not a sample.",
        "Trusted: numpy indexing; the reference model in props/c07.py. Shapes beyond the stated extents are not covered.",
        "DESIGN.md §3 C07",
    ),
}

# what the seeding rounds added to each check (appended to the level text)
EXTRA = {
    "C01": "Also: index-array / mask selection on typed batches, in-place origin changes between conversions, fractional positions as list / tuple / nested list, points 2^-20 of a voxel inside each face. Rounds 5-7: kept coordinate system with distractor systems, integer index and coordinate dtypes, user origin off the voxel lattice, bounding box and all-voxel batches, long axes (every voxel count 13..200).",
    "C02": "Also: origins spelled with Python ints, dated series spanning more than a day with an explicit reference date, an independent time reference for assembly, a cap on the reachable state count (excess = violation). Rounds 5-7: negative-bound spellings, one-component vectors, all-corner ROIs, dated assembly with an explicit shared reference date, appended series chunks, the assembled series as operand of a further stack, mixed storage types. Round 9: strided time intervals of assembled series.",
    "C03": "Also: mixed resolutions (each axis refined, coarsened or kept), weight containers shared between geometries, long num_voxels, normalise at three physical scales and on integer-typed / float32 images. Rounds 5-7: Images with default dimensions, Fortran-ordered arrays, integer and boolean data, normalise histories with a reference updated in place.",
    "C04": "Also: a second computation on the same solver object compared with a fresh object; a fault in the k-th solve of that second computation; a status ladder (each stopping criterion alone, tolerance 2^0..2^-30, masses x16 and x1/16); masses of magnitude 2^-30 with the library's default solver tolerances. Rounds 5-7: image storage types, verbose-is-passive, kinds of failure (RuntimeError / MemoryError / other) in the fault tree, residual history across formulations, second pair at twice the mass.",
    "C05": "Also: constant-weight scaling with all other options unchanged in every L1 x mobility mode (Newton and Bregman); scalar voxel size on thin multi-axis grids; 1xnx1 / 1x1xn grids; EMD object reuse and process history. Rounds 5-7: own Gauss-Legendre reference for the RT rule, tiny-mass homogeneity in every mode, homogeneity with finite relative tolerances, visible regularization option.",
    "C06": "Also: three voxel-size forms; every case starts from a process state in which operators of the same shape with other voxel sizes were built; negative fields; integer and float32 cell quantities; caller arrays updated in place between calls; results of earlier calls stay unchanged. Rounds 5-7: repeated assembly on one grid, grid unchanged by operators, harmonic means of zero / 2^-600 / 2^600, voxel sizes as caller-owned array / tuple / tiny / nearly cubic.",
    "C08": "Also: right-hand sides of magnitude 2^-40; the system handed in stays unchanged; solutions returned by earlier solves stay unchanged; one options dict shared between back-ends; process history. Rounds 5-7: large systems with zero-spelled tolerances (usable / accuracy), Bregman with L != L_init end-to-end, tiny voxels, reuse_solver=True as first call.",
    "C10": "Also: a used correction re-configured through its own save()/load() (or re-assignment of its public scaling) must behave like a fresh object so configured. Rounds 5-7: single-step series, appended series, drift re-configuration, float64 payloads beyond single precision. Round 9: dated images whose relative times were set independently of their dates.",
    "C11": "Also: images whose float data arrived after construction around integer data; resize histories on one object; position (origin) of reduced images; non-square voxels with offsets in superposition. Rounds 5-7: inputs digest-identical after every operation, huge finite values, zero-sum data, integer-typed origin of the first superposed image.",
    "C14": "Also: label-wise linear model on signals at other resolutions than the label map, all call sequences of length <= 3 over 4 resolutions against a fresh model. Rounds 5-7: reversed dof lists, integer signals for label-wise models, combined model with a mask-taking part. Round 9: label-wise thresholds with one bound pair in every scalar / list spelling.",
    "C15": "Also: the rule actually applied inside transport_density per L1 mode on generic grids and grids with single-cell axes; every (modify a returned rule in place, request any rule again) pair.",
    "C16": "Also: float32 inputs, a caller-owned options dict shared by distance objects, scalar parameter updates of MG, Jacobi without h, front-end distances on a stretched domain of equal voxel count and volume. Rounds 5-7: heterogeneous Jacobi, NumPy-scalar parameters, Bregman objects with L != L_init, AMG objects with own options on a 156-cell grid, deeper MG on too-small arrays.",
    "C17": "Also: odd extents and wide-range operands, coarsening on odd extents, ROIs outside the image, big-int / negative-int scalars. Rounds 5-7: dynamic threshold model with caller-owned bounds, NaN / inf data, distance_matrix with preprocess, scalars 0 and 1.",
    "C18": "Also: file names re-used between save generations. Rounds 5-7: curvature crop marked with typed voxels. Round 9: extents not recovered from voxel size x count; one-slice series in the quick tier.",
    "C19": "Also: set_image on a patch followed by assemble. Rounds 5-7: converted / moved / non-finite / zero-band base images, assemble twice.",
    "C20": "Also: origin changes between calls, coordinate_vector on sub-voxel vectors, to_vtk layout through a recording pyevtk stand-in, coordinate systems of 1-D/2-D/3-D images created in every order and kept. Rounds 5-7: integer-typed origins, integer cut coordinates, off-lattice user origin, index dtypes, all-voxel batch.",
    "C07": "Also (rounds 5-7): grids from vector / series images; every grid re-inspected after FV operators and a distance solver were built on it. Round 9: face_to_cell evaluated at the grid's own corner rows (views).",
    "C09": "Also (rounds 5-7): parameter spellings, Fortran-ordered arrays, partial updates after use, infinite border values, destination windows beyond index 255 / 65535.",
    "C12": "Also (rounds 5-7): column-major swatch grids, three- and four-swatch lists, faint maps.",
    "C13": "Also (rounds 5-7): time-zero probes, order option switched after use, integer probes against float baselines, probes in another physical frame. Round 9: one probe object used as a frame buffer between calls.",
}

NOT_YET = "check not built yet in this revision (see DESIGN.md §6 for the order of work)"


def main():
    props = [json.loads(l)["id"] for l in open(os.path.join(HOME, "properties.jsonl"))]
    checks, na = [], []
    for pid in props:
        if pid in T and os.path.exists(os.path.join(HOME, "props", pid.lower() + ".py")):
            level, tech, text, note, ref = T[pid]
            if pid in EXTRA:
                text = text + " " + EXTRA[pid]
            checks.append(
                {
                    "property_id": pid,
                    "quick_cmd": f"./check {pid} --tier quick",
                    "thorough_cmd": f"./check {pid} --tier thorough",
                    "evidence_file": f"/verif/evidence/{pid}.json",
                    "replay_cmd_template": f"./check {pid} --replay {{path}}",
                    "engine": "mc",
                    "level_claimed": {"category": level, "text": text, "design_ref": ref},
                    "level_note": note,
                    "technique": tech,
                }
            )
        else:
            na.append({"property_id": pid, "reason": NA.get(pid, NOT_YET)})
    hooks_commits = []
    m = {
        "version": 1,
        "setup_cmd": "./check warm",
        "hooks": {
            "guard": "DARSIA_VERIF",
            "enable": "none needed: checks import /repo/src directly and wrap bound methods from the harness; no guarded source hook exists",
            "baseline_off_cmd": BASELINE_OFF,
            "source_commits": hooks_commits,
            "add_only": True,
        },
        "engines": [
            {
                "name": "mc",
                "path": "/verif/mc",
                "serves_properties": [c["property_id"] for c in checks],
                "kind_free_text": "hand-written bounded exhaustive explorers driving the real DarSIA code: E-lattice (finite product lattices, "
                "16 worker processes), E-state (explicit-state BFS over live objects with full-content hashing), E-fault "
                "(deviation-bounded enumeration of failing inner solves)",
            }
        ],
        "checks": checks,
        "not_applicable": na,
        "notes": "All checks: ./check <ID> [--tier quick|thorough] [--replay file]; VERIF_SEED only rotates traversal order and sample choice; "
        "VERIF_REPO selects the tree (default /repo). Known findings: /verif/known_findings.json.",
    }
    path = os.path.join(HOME, "MANIFEST.json")
    with open(path, "w") as f:
        json.dump(m, f, indent=1)
    code = "import json,sys,jsonschema;jsonschema.validate(json.load(open(sys.argv[1])),json.load(open(sys.argv[2])))"
    p = subprocess.run(["python3-vt", "-c", code, path, os.path.join(HOME, "schemas", "MANIFEST.schema.json")], capture_output=True, text=True)
    print("MANIFEST valid" if p.returncode == 0 else "MANIFEST INVALID\n" + p.stderr[-1500:], f"claimed={len(checks)} not_applicable={len(na)}")
    return p.returncode


NA: dict = {}

if __name__ == "__main__":
    sys.exit(main())
