#!/usr/bin/env python3
"""Regenerate /verif/MANIFEST.json from the table below (kept valid at all times)."""
import json
import os
import subprocess
import sys

HOME = os.path.dirname(os.path.dirname(os.path.abspath(__file__)))

BASELINE_OFF = (
    "cd /repo && /venv/bin/python -m pytest -ra -q -p no:cacheprovider --timeout=900 "
    "--continue-on-collection-errors"
)

# id -> (level, technique, level text, level note, design ref)
T = {
    "C07": (
        "exploration",
        "exhaustive enumeration of all grid shapes in the bound, explicit-loop reference model of the numbering",
        "Every grid shape with extents up to the property's bound (and beyond, thorough tier) is built with the real Grid "
        "and each numbering/connectivity table is compared entry by entry with an independent explicit-loop model; the "
        "space is finite and enumerated completely, so within the bound the result is a coverage statement, not a sample.",
        "Trusted: numpy indexing; the reference model in props/c07.py. Shapes beyond the stated extents are not covered.",
        "DESIGN.md §3 C07",
    ),
}

NOT_YET = "check not built yet in this revision (see DESIGN.md §6 for the order of work)"


def main():
    props = [json.loads(l)["id"] for l in open(os.path.join(HOME, "properties.jsonl"))]
    checks, na = [], []
    for pid in props:
        if pid in T and os.path.exists(os.path.join(HOME, "props", pid.lower() + ".py")):
            level, tech, text, note, ref = T[pid]
            checks.append(
                {
                    "property_id": pid,
                    "quick_cmd": f"./check {pid} --tier quick",
                    "thorough_cmd": f"./check {pid} --tier thorough",
                    "evidence_file": f"/verif/evidence/{pid}.json",
                    "replay_cmd_template": f"./check {pid} --replay {{path}}",
                    "engine": "mc",
                    "level_claimed": {"category": level, "text": text, "design_ref": ref},
                    "level_note": note,
                    "technique": tech,
                }
            )
        else:
            na.append({"property_id": pid, "reason": NA.get(pid, NOT_YET)})
    hooks_commits = []
    m = {
        "version": 1,
        "setup_cmd": "./check warm",
        "hooks": {
            "guard": "DARSIA_VERIF",
            "enable": "none needed: checks import /repo/src directly and wrap bound methods from the harness; no guarded source hook exists",
            "baseline_off_cmd": BASELINE_OFF,
            "source_commits": hooks_commits,
            "add_only": True,
        },
        "engines": [
            {
                "name": "mc",
                "path": "/verif/mc",
                "serves_properties": [c["property_id"] for c in checks],
                "kind_free_text": "hand-written bounded exhaustive explorers driving the real DarSIA code: E-lattice (finite product lattices, "
                "16 worker processes), E-state (explicit-state BFS over live objects with full-content hashing), E-fault "
                "(deviation-bounded enumeration of failing inner solves)",
            }
        ],
        "checks": checks,
        "not_applicable": na,
        "notes": "All checks: ./check <ID> [--tier quick|thorough] [--replay file]; VERIF_SEED only rotates traversal order and sample choice; "
        "VERIF_REPO selects the tree (default /repo). Known findings: /verif/known_findings.json.",
    }
    path = os.path.join(HOME, "MANIFEST.json")
    with open(path, "w") as f:
        json.dump(m, f, indent=1)
    code = "import json,sys,jsonschema;jsonschema.validate(json.load(open(sys.argv[1])),json.load(open(sys.argv[2])))"
    p = subprocess.run(["python3-vt", "-c", code, path, os.path.join(HOME, "schemas", "MANIFEST.schema.json")], capture_output=True, text=True)
    print("MANIFEST valid" if p.returncode == 0 else "MANIFEST INVALID\n" + p.stderr[-1500:], f"claimed={len(checks)} not_applicable={len(na)}")
    return p.returncode


NA: dict = {}

if __name__ == "__main__":
    sys.exit(main())
