#!/bin/bash
# usage: tools/eval_all_seeds.sh [PROP ...]   evaluates every /tmp/seed/<PROP>/out/<v>/ not yet evaluated
cd "$(dirname "$0")/.."
root="${SEEDROOT:-/tmp/seed}"
props=("$@"); [ ${#props[@]} -eq 0 ] && props=($(ls "$root"))
for p in "${props[@]}"; do
  for v in a b c d e f g h i j k l m n o p q r s t; do
    src=$root/$p/out/$v
    [ -f "$src/patch.diff" ] || continue
    [ -f "seeded/$p-$v/verdict.json" ] && [ -z "${FORCE:-}" ] && continue
    [ -f "props/$(echo $p | tr A-Z a-z).py" ] || continue
    tools/eval_seed.sh $p $v $src > /tmp/seed_eval_$p-$v.log 2>&1
    echo "$p-$v: $(grep -o 'CAUGHT ([0-9]* cells)\|MISSED\|PATCH DOES NOT APPLY' /tmp/seed_eval_$p-$v.log | head -1)"
  done
done
