#!/bin/bash
# usage: tools/eval_seed.sh <PROP> <variant> <srcdir> [check ids...]
# Confirms a seeded property-breaking change independently and runs checks against it:
#   1. demo passes on the unmodified tree, fails with the change
#   2. the pinned unit-test suite still passes with the change (123 passed)
#   3. the registered quick check(s) report it
# Keeps it as /verif/seeded/<PROP>-<variant>/ (patch.diff, demo.py, meta.json, verdict.json).
set -u
P="$1"; V="$2"; SRC="$3"; shift 3
CHECKS=("$@"); [ ${#CHECKS[@]} -eq 0 ] && CHECKS=("$P")
here="$(cd "$(dirname "$0")/.." && pwd)"
dst="$here/seeded/$P-$V"
mkdir -p "$dst"
cp "$SRC/patch.diff" "$SRC/demo.py" "$SRC/meta.json" "$dst/" || exit 3
wt="$(mktemp -d /tmp/darsia-seed.XXXXXX)"; rmdir "$wt"
git -C /repo worktree add --detach -q "$wt" HEAD || exit 3
cleanup() { git -C /repo worktree remove --force "$wt" 2>/dev/null; rm -rf "$wt"; }
trap cleanup EXIT
run_demo() { ( cd "$wt" && PYTHONPATH="$wt/src" MPLBACKEND=Agg timeout 600 /venv/bin/python -W ignore "$dst/demo.py" >"$dst/$1.log" 2>&1; echo $? ); }
d0=$(run_demo demo_without)
git -C "$wt" apply "$dst/patch.diff" 2>/dev/null || patch -d "$wt" -p1 --fuzz=3 -s -r - < "$dst/patch.diff" || { echo "PATCH DOES NOT APPLY"; echo '{"applies": false}' > "$dst/verdict.json"; exit 3; }
d1=$(run_demo demo_with)
tests=$(cd "$wt" && PYTHONPATH="$wt/src" timeout 1500 /venv/bin/python -m pytest -q -p no:cacheprovider -n 6 tests/unit 2>&1 | tail -1)
declare -A res
for c in "${CHECKS[@]}"; do
  out=$(cd "$here" && VERIF_REPO="$wt" ./check "$c" --no-evidence 2>&1)
  last=$(echo "$out" | tail -1)
  cells=$(echo "$out" | grep -c '^VIOLATION')
  first=$(echo "$out" | grep -A1 '^VIOLATION' | grep 'cell=' | head -3 | sed 's/^ *//' | cut -c1-200 | tr '\n' ';')
  if echo "$last" | grep -q FAIL; then res[$c]="CAUGHT ($cells cells) $first"; else res[$c]="MISSED: $last"; fi
done
{
  echo "{"
  echo "  \"property\": \"$P\", \"variant\": \"$V\","
  echo "  \"demo_exit_without_change\": $d0, \"demo_exit_with_change\": $d1,"
  echo "  \"unit_tests_with_change\": \"$(echo "$tests" | sed 's/"/\\"/g')\","
  echo "  \"checks\": {"
  n=0; for c in "${CHECKS[@]}"; do n=$((n+1)); sep=","; [ $n -eq ${#CHECKS[@]} ] && sep=""; echo "    \"$c\": \"$(echo "${res[$c]}" | sed 's/\\/\\\\/g; s/"/\\"/g')\"$sep"; done
  echo "  }"
  echo "}"
} > "$dst/verdict.json"
cat "$dst/verdict.json"
