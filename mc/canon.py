"""Complete content hash of live Python / NumPy / DarSIA objects (DESIGN §2.1).

The hash is never coarsened: every attribute is walked recursively.  Two objects with
the same digest have byte-identical content, hence (the library being deterministic)
identical futures.  Identity/aliasing is *not* part of the digest; use
``alias_signature`` where it matters (C17).
"""

from __future__ import annotations

import datetime
import hashlib
import types
from typing import Any

import numpy as np

try:
    import scipy.sparse as sps
except Exception:  # pragma: no cover
    sps = None


def _feed(h, obj: Any, seen: dict, depth: int) -> None:
    if depth > 40:
        h.update(b"<deep>")
        return
    if obj is None:
        h.update(b"N")
    elif isinstance(obj, (bool, np.bool_)):
        h.update(b"b1" if obj else b"b0")
    elif isinstance(obj, (int, np.integer)):
        h.update(b"i" + str(int(obj)).encode())
    elif isinstance(obj, (float, np.floating)):
        h.update(b"f" + np.float64(obj).tobytes())
    elif isinstance(obj, complex):
        h.update(b"c" + repr(obj).encode())
    elif isinstance(obj, str):
        h.update(b"s" + obj.encode())
    elif isinstance(obj, bytes):
        h.update(b"y" + obj)
    elif isinstance(obj, np.ndarray):
        h.update(b"A" + type(obj).__name__.encode() + str(obj.dtype).encode())
        h.update(str(obj.shape).encode())
        if obj.dtype == object:
            for x in obj.ravel():
                _feed(h, x, seen, depth + 1)
        else:
            h.update(np.ascontiguousarray(obj).tobytes())
        d = getattr(obj, "__dict__", None)
        if d:
            _feed(h, d, seen, depth + 1)
    elif sps is not None and sps.issparse(obj):
        c = obj.tocsr()
        c.sort_indices()
        h.update(b"S" + str(c.shape).encode() + str(c.dtype).encode())
        h.update(c.indptr.tobytes() + c.indices.tobytes() + c.data.tobytes())
    elif isinstance(obj, (datetime.datetime, datetime.date, datetime.timedelta)):
        h.update(b"D" + repr(obj).encode())
    elif isinstance(obj, (list, tuple)):
        h.update(b"L" if isinstance(obj, list) else b"T")
        h.update(str(len(obj)).encode())
        for x in obj:
            _feed(h, x, seen, depth + 1)
    elif isinstance(obj, (set, frozenset)):
        h.update(b"E")
        for d in sorted(digest(x) for x in obj):
            h.update(d.encode())
    elif isinstance(obj, dict):
        h.update(b"M" + str(len(obj)).encode())
        for k in sorted(obj, key=lambda k: repr(k)):
            h.update(b"k" + repr(k).encode())
            _feed(h, obj[k], seen, depth + 1)
    elif isinstance(obj, slice):
        h.update(b"sl" + repr(obj).encode())
    elif isinstance(obj, type):
        h.update(b"C" + obj.__module__.encode() + obj.__qualname__.encode())
    elif isinstance(
        obj, (types.FunctionType, types.BuiltinFunctionType, types.MethodType)
    ):
        h.update(b"F" + getattr(obj, "__qualname__", repr(type(obj))).encode())
    elif isinstance(obj, np.dtype):
        h.update(b"dt" + str(obj).encode())
    else:
        oid = id(obj)
        if oid in seen:
            h.update(b"@" + str(seen[oid]).encode())
            return
        seen[oid] = len(seen)
        h.update(b"O" + type(obj).__module__.encode() + type(obj).__qualname__.encode())
        d = getattr(obj, "__dict__", None)
        if d is not None:
            _feed(h, d, seen, depth + 1)
        else:
            slots = getattr(type(obj), "__slots__", None)
            if slots:
                for s in slots:
                    h.update(s.encode())
                    _feed(h, getattr(obj, s, None), seen, depth + 1)
            else:
                # opaque handle (SuperLU, pyamg level, enum value ...): class + repr of
                # enums; handles carry no comparable content
                import enum

                if isinstance(obj, enum.Enum):
                    h.update(repr(obj).encode())
                else:
                    h.update(b"<opaque>")


def digest(obj: Any) -> str:
    h = hashlib.blake2b(digest_size=16)
    _feed(h, obj, {}, 0)
    return h.hexdigest()


def digest_many(*objs: Any) -> str:
    return digest(list(objs))


def arrays_of(obj: Any, prefix: str = "", out=None, seen=None, depth: int = 0):
    """All ndarray leaves reachable from obj -> {path: array}; used for alias signatures."""
    if out is None:
        out, seen = {}, set()
    if depth > 12 or id(obj) in seen:
        return out
    if isinstance(obj, np.ndarray):
        out[prefix] = obj
        return out
    if isinstance(obj, (str, bytes, int, float, bool, type(None))):
        return out
    seen.add(id(obj))
    if isinstance(obj, dict):
        for k, v in obj.items():
            arrays_of(v, f"{prefix}.{k}", out, seen, depth + 1)
    elif isinstance(obj, (list, tuple)):
        for i, v in enumerate(obj):
            arrays_of(v, f"{prefix}[{i}]", out, seen, depth + 1)
    elif hasattr(obj, "__dict__"):
        for k, v in vars(obj).items():
            arrays_of(v, f"{prefix}.{k}", out, seen, depth + 1)
    return out


def containers_of(obj: Any, prefix: str = "", out=None, seen=None, depth: int = 0):
    """All mutable containers (list / dict / ndarray) reachable from obj -> {path: obj}."""
    if out is None:
        out, seen = {}, set()
    if depth > 12 or id(obj) in seen:
        return out
    if isinstance(obj, (str, bytes, int, float, bool, type(None))):
        return out
    seen.add(id(obj))
    if isinstance(obj, np.ndarray):
        out[prefix] = obj
    elif isinstance(obj, dict):
        out[prefix] = obj
        for k, v in obj.items():
            containers_of(v, f"{prefix}.{k}", out, seen, depth + 1)
    elif isinstance(obj, list):
        out[prefix] = obj
        for i, v in enumerate(obj):
            containers_of(v, f"{prefix}[{i}]", out, seen, depth + 1)
    elif isinstance(obj, tuple):
        for i, v in enumerate(obj):
            containers_of(v, f"{prefix}[{i}]", out, seen, depth + 1)
    elif hasattr(obj, "__dict__"):
        for k, v in vars(obj).items():
            containers_of(v, f"{prefix}.{k}", out, seen, depth + 1)
    return out


def shares(a: Any, b: Any) -> bool:
    """a and b are the same mutable container or arrays sharing memory."""
    if a is b:
        return True
    if isinstance(a, np.ndarray) and isinstance(b, np.ndarray):
        return a.size > 0 and b.size > 0 and np.shares_memory(a, b)
    return False
