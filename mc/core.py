"""Result accumulator shared by all explorers, and the parallel case engine (E-lattice).

A property module ``props.cXX`` provides

    ID, LEVEL ("exploration" | "model_checking"), RULE (str), ASSUMPTIONS (list[str])
    cases(tier) -> list of JSON-serialisable case descriptors, simplest first
    run_case(case, r: R) -> None     executes the real code, records checks on ``r``
    describe(tier) -> dict           axis sizes etc. for the evidence file (optional)

``run_case`` may itself host an explicit-state search (mc.state) or a fault-tree
exploration (mc.fault); the engine only distributes the roots.
"""

from __future__ import annotations

import hashlib
import importlib
import json
import multiprocessing as mp
import os
import time
import traceback
from collections import Counter
from typing import Any

MAX_VIOL_PER_CELL_PER_CHUNK = 2


def jsonable(x: Any) -> Any:
    import numpy as np

    if isinstance(x, dict):
        return {str(k): jsonable(v) for k, v in x.items()}
    if isinstance(x, (list, tuple, set, frozenset)):
        return [jsonable(v) for v in x]
    if isinstance(x, np.ndarray):
        if x.size > 64:
            return {
                "ndarray": list(x.shape),
                "dtype": str(x.dtype),
                "head": jsonable(x.ravel()[:16]),
            }
        return x.tolist()
    if isinstance(x, (np.bool_,)):
        return bool(x)
    if isinstance(x, np.integer):
        return int(x)
    if isinstance(x, np.floating):
        return float(x)
    if isinstance(x, (str, int, float, bool)) or x is None:
        return x
    return repr(x)


def short_hash(x: Any) -> str:
    return hashlib.blake2b(
        json.dumps(jsonable(x), sort_keys=True, default=repr).encode(), digest_size=8
    ).hexdigest()


class R:
    """Per-case (and, merged, per-run) record of what was checked and what failed."""

    def __init__(self) -> None:
        self.evals = 0
        self.viol: list[dict] = []
        self.viol_counts: Counter = Counter()
        self.outcomes: set[str] = set()
        self.nontrivial: set[str] = set()
        self.counters: Counter = Counter()
        self.notes: dict[str, Any] = {}
        self._case: Any = None
        self._idx: int = -1

    # -- recording -------------------------------------------------------------
    def check(self, cond: Any, cell: str, clause: str, **detail: Any) -> bool:
        """One oracle evaluation; on failure a violation attributed to ``cell``."""
        self.evals += 1
        ok = bool(cond)
        if not ok:
            self.fail(cell, clause, _counted=True, **detail)
        return ok

    def fail(self, cell: str, clause: str, _counted: bool = False, **detail: Any) -> None:
        if not _counted:
            self.evals += 1
        self.viol_counts[cell] += 1
        if sum(1 for v in self.viol if v["cell"] == cell) < MAX_VIOL_PER_CELL_PER_CHUNK:
            self.viol.append(
                {
                    "cell": cell,
                    "clause": clause,
                    "case_index": self._idx,
                    "case": jsonable(self._case),
                    "detail": jsonable(detail),
                }
            )

    def ok(self, n: int = 1) -> None:
        self.evals += n

    def outcome(self, x: Any) -> None:
        """Digest of an observed behaviour; the number of distinct digests exposes a
        vacuous exploration (one outcome from many executions = nothing differed)."""
        self.outcomes.add(x if isinstance(x, str) and len(x) <= 32 else short_hash(x))

    def nontriv(self, key: Any) -> None:
        """Mark a distinct non-trivial case (by the property's stated rule)."""
        self.nontrivial.add(short_hash(key))

    def count(self, name: str, n: int = 1) -> None:
        self.counters[name] += n

    # -- merging ---------------------------------------------------------------
    def merge(self, o: "R") -> None:
        self.evals += o.evals
        self.viol_counts.update(o.viol_counts)
        for v in o.viol:
            same = [w for w in self.viol if w["cell"] == v["cell"]]
            if len(same) < 3:
                self.viol.append(v)
            else:
                worst = max(same, key=lambda w: w["case_index"])
                if v["case_index"] < worst["case_index"]:
                    self.viol.remove(worst)
                    self.viol.append(v)
        self.outcomes |= o.outcomes
        self.nontrivial |= o.nontrivial
        self.counters.update(o.counters)
        for k, v in o.notes.items():
            self.notes.setdefault(k, v)


# ---------------------------------------------------------------------------------
_PROP = None


def _orphan_watchdog(parent: int) -> None:
    """A pool worker whose parent was killed (time limit, Ctrl-C of the runner) must not
    keep exploring: it would hold cores and memory for hours and its results go nowhere."""
    import threading

    def watch() -> None:
        while True:
            time.sleep(5.0)
            if os.getppid() != parent:
                os._exit(3)

    threading.Thread(target=watch, name="verif-orphan-watchdog", daemon=True).start()


def _init_worker(prop_name: str, parent: int | None = None) -> None:
    global _PROP
    from . import env

    if parent is not None:
        _orphan_watchdog(parent)

    env.setup()
    _PROP = importlib.import_module(prop_name)
    if hasattr(_PROP, "worker_init"):
        _PROP.worker_init()


def run_one(prop, idx: int, case: Any, r: R) -> None:
    from . import env

    r._case, r._idx = case, idx
    env.reseed(0)
    try:
        with env.quiet():
            prop.run_case(case, r)
    except Exception as e:  # an escaping exception is an observation, never silence
        tb = traceback.extract_tb(e.__traceback__)
        where = "?"
        for fr in reversed(tb):
            if "/darsia/" in fr.filename:
                where = f"{os.path.basename(fr.filename)}:{fr.name}"
                break
        else:
            if tb:
                where = f"harness:{os.path.basename(tb[-1].filename)}:{tb[-1].name}"
        cellfn = getattr(prop, "crash_cell", None)
        cell = (
            cellfn(case, e, where)
            if cellfn
            else f"{prop.ID}/crash/{type(e).__name__}@{where}"
        )
        r.fail(
            cell,
            "no exception may escape on an input inside the property's quantifier",
            exception=f"{type(e).__name__}: {e}",
            traceback=traceback.format_exc()[-1500:],
        )
    r._case, r._idx = None, -1


def _signature(r: "R") -> tuple:
    return (r.evals, tuple(sorted(r.outcomes)), tuple(sorted(r.viol_counts.items())))


def _run_chunk(chunk: list) -> R:
    """Run the cases of one shard in order.  The first cases of the shard are executed a
    second time after all the others ("start from non-initial states too"): the library is
    deterministic and a case's observations must not depend on what the process did
    before, so any difference is state leaking between calls (module-level caches,
    mutated defaults) and is reported."""
    r = R()
    first: list[tuple] = []
    for n, (idx, case) in enumerate(chunk):
        if n < 2 and len(chunk) > 2:
            one = R()
            run_one(_PROP, idx, case, one)
            first.append((idx, case, _signature(one)))
            r.merge(one)
        else:
            run_one(_PROP, idx, case, r)
    for idx, case, sig in first:
        again = R()
        run_one(_PROP, idx, case, again)
        r.count("cases_rerun_after_history")
        r._case, r._idx = case, idx
        r.check(
            _signature(again) == sig,
            f"{_PROP.ID}/observations-depend-on-process-history",
            "a case gives the same observations when it is re-run after other cases in the same process",
            first=sig[0],
            again=_signature(again)[0],
            new_cells=[c for c, _ in _signature(again)[2] if c not in dict(sig[2])],
        )
        r._case, r._idx = None, -1
    return r


def run_cases(prop_name: str, cases: list, jobs: int, seed: int, progress=None) -> R:
    """Evaluate every case (no sampling, no early exit) on ``jobs`` workers."""
    total = R()
    n = len(cases)
    if n == 0:
        return total
    indexed = list(enumerate(cases))
    if jobs <= 1 or n == 1:
        _init_worker(prop_name)
        for idx, case in indexed:
            run_one(_PROP, idx, case, total)
        return total
    # deterministic sharding: round-robin so that every worker sees simple and hard
    # cases alike; the seed only rotates the assignment, never the content
    nchunks = min(n, jobs * 8)
    chunks = [indexed[(k + seed) % nchunks :: nchunks] for k in range(nchunks)]
    chunks = [c for c in chunks if c]
    ctx = mp.get_context("spawn")
    t0 = time.time()
    with ctx.Pool(min(jobs, len(chunks)), initializer=_init_worker, initargs=(prop_name, os.getpid())) as pool:
        done = 0
        for res in pool.imap_unordered(_run_chunk, chunks):
            total.merge(res)
            done += 1
            if progress and time.time() - t0 > 30:
                t0 = time.time()
                progress(done, len(chunks))
    return total
