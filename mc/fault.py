"""E-fault: deviation-bounded exploration of environment answers (DESIGN §2.1).

``run(prefix)`` executes the real code once.  At every choice point it meets it asks
``sched.choose(n_alternatives)``: the scheduler replays the recorded prefix, then takes
the default answer 0.  Alternatives (answer != 0, a *deviation*) are explored for bound
0, 1, 2, ...; executions always run to completion.  A prefix that does not replay (a
choice point disappears or has fewer alternatives) is a hard error.
"""

from __future__ import annotations

from typing import Any, Callable


class ReplayDivergence(RuntimeError):
    pass


class Scheduler:
    def __init__(self, prefix: list[int]):
        self.prefix = list(prefix)
        self.choices: list[int] = []
        self.arity: list[int] = []

    def choose(self, n: int) -> int:
        i = len(self.choices)
        if i < len(self.prefix):
            c = self.prefix[i]
            if c >= n:
                raise ReplayDivergence(
                    f"choice point {i}: recorded answer {c} but only {n} alternatives"
                )
        else:
            c = 0
        self.choices.append(c)
        self.arity.append(n)
        return c

    def finish(self) -> None:
        if len(self.choices) < len(self.prefix):
            raise ReplayDivergence(
                f"execution met {len(self.choices)} choice points, prefix has {len(self.prefix)}"
            )


def explore(
    run: Callable[[Scheduler], Any],
    bound: int,
    on_execution: Callable[[list[int], list[int], Any], None],
    max_executions: int | None = None,
) -> dict:
    """Enumerate every execution with at most ``bound`` deviations."""
    stats = {"executions": 0, "by_deviations": {}, "capped": False, "max_points": 0}

    def rec(prefix: list[int]) -> None:
        if max_executions is not None and stats["executions"] >= max_executions:
            stats["capped"] = True
            return
        s = Scheduler(prefix)
        obs = run(s)
        s.finish()
        stats["executions"] += 1
        ndev = sum(1 for c in s.choices if c != 0)
        stats["by_deviations"][ndev] = stats["by_deviations"].get(ndev, 0) + 1
        stats["max_points"] = max(stats["max_points"], len(s.choices))
        on_execution(list(s.choices), list(s.arity), obs)
        if ndev >= bound:
            return
        for i in range(len(prefix), len(s.choices)):
            for alt in range(1, s.arity[i]):
                rec(s.choices[:i] + [alt])

    rec([])
    return stats
