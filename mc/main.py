"""CLI of the checks:  ./check <ID> [--tier quick|thorough] [--replay f] [--jobs N]"""

from __future__ import annotations

import argparse
import fnmatch
import glob
import importlib
import json
import os
import subprocess
import sys
import time

from . import env
from .core import R, jsonable, run_cases, run_one

HOME = os.environ.get("VERIF_HOME", os.path.dirname(os.path.dirname(os.path.abspath(__file__))))


def load_findings(pid: str) -> tuple[list[dict], list[dict]]:
    path = os.path.join(HOME, "known_findings.json")
    if not os.path.exists(path):
        return [], []
    data = json.load(open(path))
    mine = [f for f in data.get("findings", []) if f.get("property") == pid]
    return (
        [f for f in mine if f.get("status") == "known"],
        [f for f in mine if f.get("status") == "fixed"],
    )


def match_finding(cell: str, known: list[dict]) -> dict | None:
    for f in known:
        if cell == f["cell"] or fnmatch.fnmatchcase(cell, f["cell"]):
            return f
    return None


def validate_evidence(path: str) -> str | None:
    schema = os.path.join(HOME, "schemas", "EVIDENCE.schema.json")
    code = (
        "import json,sys,jsonschema;"
        "jsonschema.validate(json.load(open(sys.argv[1])),json.load(open(sys.argv[2])))"
    )
    for py in ("python3-vt", "/opt/veriftools/pyvenv/bin/python"):
        try:
            p = subprocess.run([py, "-c", code, path, schema], capture_output=True, text=True, timeout=120)
        except FileNotFoundError:
            continue
        return None if p.returncode == 0 else p.stderr[-2000:]
    return None  # validator not available: nothing to assert


def warm() -> int:
    """setup_cmd: populate the persistent JIT cache (import-time and first-call JITs)."""
    import numpy as np

    import darsia

    with env.quiet():
        try:
            img = np.random.RandomState(0).rand(8, 8)
            darsia.tvd(img, method="heterogeneous bregman", weight=0.1, max_num_iter=2, eps=1e-4) if hasattr(darsia, "tvd") else None
        except Exception:
            pass
        try:
            k = darsia.GaussianKernel(gamma=1.0)
            darsia.KernelInterpolation(k, np.array([[0.0, 0.0, 0.0], [1.0, 1.0, 1.0]]), np.array([0.0, 1.0]))(np.zeros((2, 2, 3)))
        except Exception:
            pass
    print("warm: ok")
    return 0


def main(argv=None) -> int:
    ap = argparse.ArgumentParser()
    ap.add_argument("pid")
    ap.add_argument("--tier", default=os.environ.get("VERIF_TIER", "quick"), choices=["quick", "thorough"])
    ap.add_argument("--replay")
    ap.add_argument("--jobs", type=int, default=int(os.environ.get("VERIF_JOBS", "0")) or min(16, os.cpu_count() or 1))
    ap.add_argument("--no-evidence", action="store_true")
    ap.add_argument("--only", help="restrict to cases whose JSON contains this substring (debug; no evidence)")
    a = ap.parse_args(argv)
    pid = a.pid.upper()
    seed = int(os.environ.get("VERIF_SEED", "0") or 0)
    prop_name = f"props.{pid.lower()}"
    t0 = time.time()
    env.setup()
    if pid == "WARM":
        return warm()
    prop = importlib.import_module(prop_name)

    if a.replay:
        rec = json.load(open(a.replay))
        r = R()
        if hasattr(prop, "worker_init"):
            prop.worker_init()
        run_one(prop, rec.get("case_index", 0), rec["case"], r)
        print(f"replay of {a.replay}: case={json.dumps(rec['case'])}")
        same = [v for v in r.viol if v["cell"] == rec.get("cell")]
        for v in r.viol:
            print(f"  cell={v['cell']}\n  clause={v['clause']}\n  detail={json.dumps(v['detail'])[:2000]}")
        if not r.viol:
            print("  no violation reproduced (property holds on this case now)")
            return 0
        print(f"  reproduced: {len(same)} violation(s) in the recorded cell, {len(r.viol)} in total")
        return 1

    cases = list(prop.cases(a.tier))
    if a.only:
        cases = [c for c in cases if a.only in json.dumps(jsonable(c))]
        a.no_evidence = True
    print(f"[{pid}] tier={a.tier} seed={seed} cases={len(cases)} jobs={a.jobs} repo={env.repo_root()}", flush=True)

    def progress(done, n):
        print(f"[{pid}] ... {done}/{n} shards, {time.time()-t0:.0f}s", flush=True)

    total = run_cases(prop_name, cases, a.jobs, seed, progress)
    if hasattr(prop, "finalize"):
        prop.finalize(total, a.tier)

    known, fixed = load_findings(pid)
    os.makedirs(os.path.join(HOME, "replay"), exist_ok=True)
    for old in glob.glob(os.path.join(HOME, "replay", f"{pid}-*.json")):
        os.remove(old)
    by_cell: dict[str, list[dict]] = {}
    for v in total.viol:
        by_cell.setdefault(v["cell"], []).append(v)
    n_viol = 0
    lines = []
    cells_report = {}
    for n, cell in enumerate(sorted(by_cell, key=lambda c: min(v["case_index"] for v in by_cell[c]))):
        first = min(by_cell[cell], key=lambda v: v["case_index"])
        path = os.path.join(HOME, "replay", f"{pid}-{n:03d}.json")
        rec = dict(first)
        rec.update({"property": pid, "tier": a.tier, "count_in_cell": total.viol_counts[cell]})
        with open(path, "w") as f:
            json.dump(rec, f, indent=1)
        kf = match_finding(cell, known)
        cells_report[cell] = {"count": total.viol_counts[cell], "known": bool(kf), "replay": path}
        if kf:
            lines.append(f"KNOWN-FINDING: property={pid} {cell} {kf.get('what','')}")
        else:
            n_viol += 1
            lines.append(f"VIOLATION property={pid} replay={path}")
            lines.append(f"  cell={cell} count={total.viol_counts[cell]} clause={first['clause']}")
            lines.append(f"  detail={json.dumps(first['detail'])[:600]}")

    wall = time.time() - t0
    cap = int(total.counters.get("cap_hit", 0))
    exhaustive = bool(getattr(prop, "EXHAUSTIVE", True)) and cap == 0
    # samples: actual explored cases, picked by the seed
    samples = []
    if cases:
        for k in range(min(3, len(cases))):
            samples.append(jsonable(cases[(seed * 7919 + k * (len(cases) // 3 + 1)) % len(cases)]))
    cov = {
        "evaluations": int(total.evals),
        "distinct_nontrivial": len(total.nontrivial),
        "rule": getattr(prop, "RULE", ""),
        "samples": samples + jsonable(total.notes.get("samples", []))[:3],
        "exhaustive": exhaustive,
        "cases": len(cases),
        "distinct_outcomes": len(total.outcomes),
        "caps_hit": cap,
        "counters": {k: int(v) for k, v in sorted(total.counters.items())},
        "violating_cells": cells_report,
    }
    if hasattr(prop, "describe"):
        cov["bounds"] = jsonable(prop.describe(a.tier))
    level = getattr(prop, "LEVEL", "exploration")
    if level == "model_checking":
        cov["states"] = int(total.counters.get("states", 0))
        cov["transitions"] = int(total.counters.get("transitions", 0))
        cov["traces_validated_against_impl"] = int(total.counters.get("traces", 0))
    ev = {
        "property_id": pid,
        "tier": a.tier,
        "seed": seed,
        "level": level,
        "coverage": cov,
        "assumptions": list(getattr(prop, "ASSUMPTIONS", [])),
        "wall_s": round(wall, 2),
        "violations": n_viol,
    }
    rc = 1 if n_viol else 0
    if not a.no_evidence:
        os.makedirs(os.path.join(HOME, "evidence"), exist_ok=True)
        evp = os.path.join(HOME, "evidence", f"{pid}.json")
        with open(evp, "w") as f:
            json.dump(ev, f, indent=1, sort_keys=True)
        err = validate_evidence(evp)
        if err:
            print(f"[{pid}] EVIDENCE INVALID: {err}")
            rc = rc or 2
    for ln in lines:
        print(ln)
    print(
        f"[{pid}] {'FAIL' if n_viol else 'ok'}: cases={len(cases)} evaluations={total.evals} "
        f"distinct_nontrivial={len(total.nontrivial)} distinct_outcomes={len(total.outcomes)} "
        + (f"states={cov.get('states')} transitions={cov.get('transitions')} " if level == "model_checking" else "")
        + f"exhaustive={exhaustive} known_cells={sum(1 for c in cells_report.values() if c['known'])} "
        f"violating_cells={n_viol} wall={wall:.1f}s",
        flush=True,
    )
    return rc


if __name__ == "__main__":
    sys.exit(main())
