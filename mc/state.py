"""E-state: explicit-state breadth-first search over the *real* objects (DESIGN §2.1).

A state is reached by a history (list of op descriptors).  ``build(hist)`` returns the
live state for a history; by default it replays the history on a fresh object, and the
search optionally keeps deep-copied snapshots to avoid the replay.  ``step(state, op)``
performs the real call and returns its observable output; ``check(hist, op, before_key,
state, out, r)`` evaluates the invariant on every transition.  ``canon(state)`` is the
full content digest used for de-duplication.
"""

from __future__ import annotations

import collections
import copy
from typing import Any, Callable

from .core import R


def bfs(
    *,
    fresh: Callable[[], Any],
    ops: Callable[[Any, list], list],
    step: Callable[[Any, Any], Any],
    check: Callable[[list, Any, Any, Any, R], None],
    canon: Callable[[Any], str],
    depth: int,
    r: R,
    dedup: bool = True,
    snapshot: bool = True,
    max_states: int | None = None,
    sample_sink: list | None = None,
) -> dict:
    """Run the search; returns {"states","transitions","max_depth","fixpoint","capped"}.

    ``check`` is called after every transition with (history, op, state_after, out, r).
    ``step`` may return the new state object (functional style) by returning a tuple
    ``(state_after, out)``; if it returns a non-tuple, the state object is assumed to
    have been updated in place.
    """

    def rebuild(hist: list) -> Any:
        s = fresh()
        for op in hist:
            res = step(s, op)
            if isinstance(res, tuple) and len(res) == 2 and res[0] is not None:
                s = res[0]
        return s

    init = fresh()
    k0 = canon(init)
    seen = {k0}
    frontier = collections.deque([([], copy.deepcopy(init) if snapshot else None)])
    transitions = 0
    max_depth = 0
    capped = False
    fixpoint = True
    while frontier:
        hist, snap = frontier.popleft()
        base = snap if snapshot else None
        state0 = base if base is not None else rebuild(hist)
        for op in ops(state0, hist):
            state = copy.deepcopy(base) if base is not None else rebuild(hist)
            res = step(state, op)
            if isinstance(res, tuple) and len(res) == 2 and res[0] is not None:
                state, out = res
            else:
                out = res[1] if isinstance(res, tuple) and len(res) == 2 else res
            transitions += 1
            nh = hist + [op]
            check(nh, op, state, out, r)
            k = canon(state)
            new = (k not in seen) or not dedup
            if new:
                if len(nh) < depth:
                    if max_states is not None and len(seen) >= max_states:
                        capped = True
                        continue
                    seen.add(k)
                    frontier.append((nh, copy.deepcopy(state) if snapshot else None))
                    max_depth = max(max_depth, len(nh))
                else:
                    seen.add(k)
                    max_depth = max(max_depth, len(nh))
                    fixpoint = False  # unexplored successors remain beyond the bound
                if sample_sink is not None and len(sample_sink) < 3:
                    sample_sink.append(nh)
    r.count("states", len(seen))
    r.count("transitions", transitions)
    r.count("traces", transitions)  # every transition was executed on the implementation
    if capped:
        r.count("cap_hit", 1)
    return {
        "states": len(seen),
        "transitions": transitions,
        "max_depth": max_depth,
        "fixpoint": fixpoint and not capped,
        "capped": capped,
    }


def sequences(alphabet: list, max_len: int, min_len: int = 1):
    """All sequences over the alphabet with min_len <= length <= max_len, shortest first."""
    import itertools

    for n in range(min_len, max_len + 1):
        yield from (list(s) for s in itertools.product(alphabet, repeat=n))
