"""Process environment of every check (DESIGN §2.4): own the nondeterminism.

``setup()`` is called once per process (parent and every worker) *before* the property
module touches darsia.
"""

from __future__ import annotations

import contextlib
import io
import os
import sys

_DONE = False


def repo_root() -> str:
    return os.environ.get("VERIF_REPO", "/repo")


def setup() -> None:
    global _DONE
    if _DONE:
        return
    _DONE = True
    src = os.path.join(repo_root(), "src")
    # the tree under test always wins over the editable install
    if src in sys.path:
        sys.path.remove(src)
    sys.path.insert(0, src)
    os.environ.setdefault("MPLBACKEND", "Agg")
    for k in (
        "OMP_NUM_THREADS",
        "OPENBLAS_NUM_THREADS",
        "MKL_NUM_THREADS",
        "NUMBA_NUM_THREADS",
        "NUMEXPR_NUM_THREADS",
    ):
        os.environ.setdefault(k, "1")
    import warnings

    warnings.filterwarnings("ignore")
    import numpy as np

    np.seterr(all="ignore")
    try:
        import cv2

        cv2.setNumThreads(0)
        cv2.setRNGSeed(0)
    except Exception:  # pragma: no cover
        pass
    with quiet():
        import darsia  # noqa: F401

    assert os.path.realpath(darsia.__file__).startswith(
        os.path.realpath(src)
    ), f"darsia imported from {darsia.__file__}, expected under {src}"
    _neutralise_tracemalloc()


def _neutralise_tracemalloc() -> None:
    """``_solve`` starts tracemalloc and never stops it (8x slowdown, no semantics)."""
    try:
        import darsia.measure.wasserstein as W
    except Exception:  # pragma: no cover
        return

    class _TM:
        @staticmethod
        def start(*a, **k):
            return None

        @staticmethod
        def stop(*a, **k):
            return None

        @staticmethod
        def get_traced_memory():
            return (0, 0)

        @staticmethod
        def is_tracing():
            return False

    if hasattr(W, "tracemalloc"):
        W.tracemalloc = _TM


def reseed(seed: int = 0) -> None:
    """Global RNGs the library may consume (OpenCV k-means, numpy legacy RNG)."""
    import numpy as np

    np.random.seed(seed)
    try:
        import cv2

        cv2.setRNGSeed(seed)
    except Exception:  # pragma: no cover
        pass


@contextlib.contextmanager
def quiet():
    """Swallow the library's prints (Patches.assemble, solver verbosity, warnings)."""
    out, err = sys.stdout, sys.stderr
    sys.stdout, sys.stderr = io.StringIO(), io.StringIO()
    try:
        yield
    finally:
        sys.stdout, sys.stderr = out, err


def scratch_dir() -> str:
    d = os.environ.get("VERIF_SCRATCH")
    if not d:
        import tempfile

        d = tempfile.mkdtemp(prefix="darsia-verif.")
        os.environ["VERIF_SCRATCH"] = d
    return d
